"""C04: the miter output `sat` is 1 exactly when the compared circuits differ on a compared endpoint."""
import json

import lib
from lib import cs, ccirc, csl

ID = "C04"
RUN_MODULE = "Run.Run_C04"
GEN_FILES = ["Gen_types.v"]
RULE = ("pairs of lint-clean blackbox-free circuits (<= 9 nodes each, all gate types, constants): identical, restructured at dump level "
        "(De Morgan, operand splitting, inserted buffers, double inversion), one-gate mutants (type change, operand change), unrelated, and "
        "pairs around one xor/xnor gate with 4-5 operands (identical, re-grouped, inverted, operand dropped, unrelated), single-operand gates of "
        "every multi-input type against buf / not, self-miters (c1 omitted / empty), circuits without (shared) outputs (nothing compared: sat constant 0); startpoints/endpoints: default, explicit empty (= default), every kind of non-empty subset of "
        "the shared ones incl. a single endpoint and internal nodes as endpoints; passed as set, frozenset, list or tuple, built once per case "
        "and handed to two calls (the same pair again, the swapped pair, or the self-miter), with a snapshot of the collections before and "
        "after each call (a call that changes the caller's collection fails the oracle); on every returned miter the implementation side also calls "
        "sat.solve(miter, {sat: True}) and the oracle compares the verdict with the exhaustive one; plus a rejection stream (blackboxes, "
        "names missing in one circuit, node names sat / dif_x / c0_x that clash, duplicate endpoints); non-trivial = accepted miter with "
        "at least one gate per copy; distinct = canonical case hash")
EXPLANATION = ("miter model written through the API model and proved to have the stated semantics (all accepted calls); model tied to tx.miter by "
               "correspondence; the property is decided on every returned miter by exhaustive evaluation of all free-node valuations")
SHARD = 20
HASHSEEDS = {"quick": [0, 1], "thorough": [0, 1, 2]}

INV = {"and": "nor", "or": "nand", "nand": "or", "nor": "and"}
BASE = {"and": "and", "nand": "and", "or": "or", "nor": "or", "xor": "xor", "xnor": "xor"}


def _clone(d):
    return json.loads(json.dumps(d))


def _fresh(d, base):
    names = {n[0] for n in d["nodes"]}
    k = 0
    while f"{base}{k}" in names:
        k += 1
    return f"{base}{k}"


def restructure(rng, d):
    """function-preserving rewrite of one gate (dump level)"""
    d = _clone(d)
    gates = [n for n in d["nodes"] if n[1] in lib.GATES and n[3]]
    if not gates:
        return d, "none"
    g = rng.choice(gates)
    kind = rng.choice(["demorgan", "split", "buffer", "notnot"])
    if kind == "demorgan" and g[1] in INV:
        new = []
        for f in g[3]:
            nm = _fresh(d, "dm")
            d["nodes"].append([nm, "not", False, [f]])
            new.append(nm)
        g[1], g[3] = INV[g[1]], sorted(new)
    elif kind == "split" and g[1] in BASE and len(g[3]) >= 3:
        part = sorted(rng.sample(g[3], 2))
        nm = _fresh(d, "sp")
        d["nodes"].append([nm, BASE[g[1]], False, part])
        g[3] = sorted((set(g[3]) - set(part)) | {nm})
    elif kind == "notnot":
        f = rng.choice(g[3])
        a, b = _fresh(d, "na"), None
        d["nodes"].append([a, "not", False, [f]])
        b = _fresh(d, "nb")
        d["nodes"].append([b, "not", False, [a]])
        g[3] = sorted((set(g[3]) - {f}) | {b})
    else:
        kind = "buffer"
        f = rng.choice(g[3])
        nm = _fresh(d, "bf")
        d["nodes"].append([nm, "buf", False, [f]])
        g[3] = sorted((set(g[3]) - {f}) | {nm})
    return d, kind


def mutate_gate(rng, d):
    """one-gate mutant: usually changes the function"""
    d = _clone(d)
    gates = [n for n in d["nodes"] if n[1] in lib.GATES and n[3]]
    if not gates:
        return d, "none"
    g = rng.choice(gates)
    if rng.random() < 0.65:
        pool = lib.SINGLE if g[1] in lib.SINGLE else lib.MULTI
        g[1] = rng.choice([t for t in pool if t != g[1]])
        return d, "type"
    idx = [n[0] for n in d["nodes"]].index(g[0])
    earlier = [n[0] for n in d["nodes"][:idx] if n[0] not in g[3]]
    if earlier:
        drop = rng.choice(g[3])
        g[3] = sorted((set(g[3]) - {drop}) | {rng.choice(earlier)})
        return d, "operand"
    g[1] = "not" if g[1] == "buf" else "buf" if g[1] == "not" else "nand" if g[1] == "and" else "and"
    return d, "type"


def gen_circ(rng, style=None):
    d = lib.rand_dag(rng, rng.randint(1, 3), rng.randint(1, 5), max_fanin=3, p_const=0.15, names=style)
    d["name"] = rng.choice(["a", "top", "c"])
    return d


def pick(rng, pool, what):
    """None (default), explicit empty, or a non-empty subset; as a set or a list"""
    pool = sorted(pool)
    r = rng.random()
    if r < 0.3 or not pool:
        return None if rng.random() < 0.85 else {"as": rng.choice(["set", "list", "tuple", "frozenset"]), "v": []}
    if r < 0.5:
        v = [rng.choice(pool)]
    elif r < 0.7:
        v = pool
    else:
        v = rng.sample(pool, rng.randint(1, len(pool)))
    return {"as": rng.choice(["set", "set", "set", "set", "list", "list", "frozenset", "tuple"]), "v": v}


def gen_pair(rng):
    style = rng.choice([None, None, lambda i: f"n{i}", lambda i: "abcdefgh"[i % 8] + (str(i // 8) if i >= 8 else "")])
    c0 = gen_circ(rng, style)
    r = rng.random()
    if r < 0.15:
        c1, rel = None, "self"
    elif r < 0.3:
        c1, rel = _clone(c0), "identical"
    elif r < 0.55:
        c1, rel = restructure(rng, c0)
        if rng.random() < 0.4:
            c1, rel2 = restructure(rng, c1)
            rel += "+" + rel2
        rel = "restructured:" + rel
    elif r < 0.85:
        c1, rel = mutate_gate(rng, c0)
        rel = "mutant:" + rel
        if rng.random() < 0.3:
            c1, _ = restructure(rng, c1)
    elif r < 0.95:
        c1, rel = gen_circ(rng, style), "unrelated"
    else:
        c1, rel = {"name": "e", "nodes": [], "bbs": []}, "empty-c1"
    if c1 is not None:
        c1["name"] = rng.choice(["b", c0["name"], "top2"])
    if rng.random() < 0.07:
        # nothing to compare: circuits without outputs (or without a shared one) -- `sat` must be constant 0
        for c in ([c0] if rng.random() < 0.5 or c1 is None else [c0, c1]):
            for n in c["nodes"]:
                n[2] = False
        rel = "no-endpoints:" + rel
    asym = False
    if c1 is not None and c1["nodes"] and rng.random() < 0.15:
        # an observation output on one side only: a node that is an output in one circuit and an internal wire of the same name
        # in the other must NOT be compared by default
        side, oth = (c0, c1) if rng.random() < 0.6 else (c1, c0)
        on = {n[0]: n for n in oth["nodes"]}
        cand = [n for n in side["nodes"] if n[1] != "input" and n[0] in on and not on[n[0]][2]]
        if cand:
            n = rng.choice(cand)
            n[2] = True
            on[n[0]][2] = False
            asym = True
            rel = "asym-outputs:" + rel
    other = c1 if c1 and c1["nodes"] else c0
    sp0 = {n[0] for n in c0["nodes"] if n[1] == "input"}
    sp1 = {n[0] for n in other["nodes"] if n[1] == "input"}
    ep0 = {n[0] for n in c0["nodes"] if n[2]}
    ep1 = {n[0] for n in other["nodes"] if n[2]}
    shared_nodes = {n[0] for n in c0["nodes"]} & {n[0] for n in other["nodes"]}
    S = pick(rng, sp0 & sp1, "S")
    if rng.random() < 0.75:
        E = pick(rng, ep0 & ep1, "E")
    else:
        E = pick(rng, shared_nodes, "E")         # any shared node may be compared, also internal ones
    if asym and rng.random() < 0.8:
        E = None
    return {"c0": c0, "c1": c1, "S": S, "E": E, "rel": rel, "second": rng.choice(["same", "same", "swap", "self"])}


def gen_parity_pair(rng):
    """wide parity gates (4-5 operands): sat.cnf chains them through helper variables; equal, restructured and differing partners"""
    k = rng.choice([4, 4, 5])
    ins = [["abcde"[i], "input", False, []] for i in range(k)]
    names = [n[0] for n in ins]
    t = rng.choice(["xor", "xnor"])
    c0 = {"name": "a", "nodes": _clone(ins) + [["p", t, rng.random() < 0.5, names]], "bbs": []}
    if rng.random() < 0.6:
        c0["nodes"].append(["o", rng.choice(["buf", "not", "and", "or", "xor"]), True, ["p"] + ([rng.choice(names)] if rng.random() < 0.5 else [])])
        if c0["nodes"][-1][1] in ("buf", "not"):
            c0["nodes"][-1][3] = ["p"]
    else:
        c0["nodes"][-1][2] = True
    r = rng.random()
    c1 = _clone(c0)
    p1 = [n for n in c1["nodes"] if n[0] == "p"][0]
    if r < 0.15:
        rel = "parity:identical"
    elif r < 0.3:
        part = rng.sample(names, 2)                   # xor(a,b,c,d) = xor(xor(a,b),c,d)
        c1["nodes"].insert(k, ["h", "xor", False, sorted(part)])
        p1[3] = sorted((set(names) - set(part)) | {"h"})
        rel = "parity:restructured"
    elif r < 0.4:
        p1[1] = "xnor" if t == "xor" else "xor"
        rel = "parity:inverted"
    elif r < 0.55:
        p1[3] = sorted(rng.sample(names, k - 1))      # one operand dropped
        rel = "parity:operand-dropped"
    elif r < 0.9:
        # the partner is the constant the gate takes on EVEN parity: the circuits differ exactly on the odd-parity valuations
        c1["nodes"].insert(k, ["na", "not", False, [names[0]]])
        p1[1], p1[3] = ("and" if t == "xor" else "or"), sorted([names[0], "na"])
        rel = "parity:differs-on-odd-parity-only"
    else:
        p1[1], p1[3] = rng.choice(["and", "or", "nor"]), sorted(rng.sample(names, 2))
        rel = "parity:unrelated"
    c1["name"] = "b"
    if rng.random() < 0.3:
        c0, c1 = c1, c0
    S = None if rng.random() < 0.7 else {"as": "set", "v": rng.sample(names, rng.randint(2, k))}
    return {"c0": c0, "c1": c1, "S": S, "E": None, "rel": rel, "second": rng.choice(["same", "swap"])}


_SINGLE_COUNT = [0]


def gen_single_pair(rng):
    """multi-input gate types used with ONE operand (and/or/xor act as buf, nand/nor/xnor as not) against buf / not"""
    base = lib.rand_dag(rng, rng.randint(1, 2), rng.randint(0, 2), max_fanin=2, names=lambda i: f"n{i}")
    g = base["nodes"][-1][0]
    for n in base["nodes"]:
        n[2] = False
    _SINGLE_COUNT[0] += 1
    seq = lib.MULTI + ["xnor", "xor"]                 # every multi-input type in turn (the parity gates twice) ...
    t = seq[_SINGLE_COUNT[0] % 8]
    u = ["not", "buf", rng.choice(lib.MULTI)][(_SINGLE_COUNT[0] // 8 + _SINGLE_COUNT[0]) % 3]   # ... against not, buf, another single-operand gate
    c0, c1 = _clone(base), _clone(base)
    c0["nodes"].append(["o", t, True, [g]])
    c1["nodes"].append(["o", u, True, [g]])
    if rng.random() < 0.4:                            # one more level, so that the single-operand gate is internal
        for c in (c0, c1):
            c["nodes"][-1][2] = False
            c["nodes"][-1][0] = "w"
            c["nodes"].append(["o", rng.choice(["and", "or", "xor"]), True, sorted({"w", base["nodes"][0][0]})])
    c0["name"], c1["name"] = "a", "b"
    if rng.random() < 0.3:
        c0, c1 = c1, c0
    return {"c0": c0, "c1": c1, "S": None, "E": None, "rel": f"single:{t}-vs-{u}", "second": rng.choice(["same", "swap"])}


def gen_reject(rng):
    k = gen_pair(rng)
    kind = rng.choice(["bb0", "bb1", "missing_sp", "missing_ep", "name_sat", "name_dif", "name_c0", "dup_ep", "gate_as_sp"])
    c0 = k["c0"]
    if k["c1"] is None or not k["c1"]["nodes"]:
        k["c1"] = _clone(c0)
        k["c1"]["name"] = "b"
    c1 = k["c1"]
    ins = [n[0] for n in c0["nodes"] if n[1] == "input"]
    if kind == "bb0":
        k["c0"] = lib.add_flop(rng, c0)
    elif kind == "bb1":
        k["c1"] = lib.add_flop(rng, c1)
    elif kind == "missing_sp":
        c0["nodes"].append(["only0", "input", False, []])
        c0["nodes"].append(["og", "and", True, ["only0", c0["nodes"][0][0]]])
        k["S"] = {"as": "set", "v": ["only0"]}
    elif kind == "missing_ep":
        c0["nodes"].append(["oe", "buf", True, [c0["nodes"][0][0]]])
        k["E"] = {"as": "set", "v": ["oe"]}
    elif kind in ("name_sat", "name_dif", "name_c0"):
        # a shared input whose name collides with a name the miter creates
        ep = sorted({n[0] for n in c0["nodes"] if n[2]} & {n[0] for n in c1["nodes"] if n[2]})
        nm = "sat" if kind == "name_sat" else ("dif_" + (ep[0] if ep else "x")) if kind == "name_dif" else "c0_" + c0["nodes"][-1][0]
        for c in (c0, c1):
            if nm not in [n[0] for n in c["nodes"]]:
                c["nodes"].append([nm, "input", False, []])
                c["nodes"].append([_fresh(c, "cl"), "or", True, [nm, c["nodes"][0][0]]])
        k["S"] = None if rng.random() < 0.5 else {"as": "set", "v": [nm]}
        k["E"] = None
    elif kind == "dup_ep":
        ep = sorted({n[0] for n in c0["nodes"] if n[2]} & {n[0] for n in c1["nodes"] if n[2]})
        if ep:
            k["E"] = {"as": "list", "v": [ep[0], ep[0]]}
    elif kind == "gate_as_sp":
        g = [n[0] for n in c0["nodes"] if n[1] in lib.GATES and n[0] in {m[0] for m in c1["nodes"]}]
        if g:
            k["S"] = {"as": "set", "v": [rng.choice(g)]}
    k["rel"] = "reject:" + kind
    return k


def generate(rng, tier):
    _SINGLE_COUNT[0] = 0
    n = 100 if tier == "quick" else 900
    out = []
    for _ in range(n):
        r = rng.random()
        out.append(gen_pair(rng) if r < 0.62 else gen_parity_pair(rng) if r < 0.74 else gen_single_pair(rng) if r < 0.88 else gen_reject(rng))
    return out


WIDEN = 1                  # widened search: one more generated batch + a budgeted neighbourhood
_MUTATE_BUDGET = [40]


def mutate_case(rng, case):
    if _MUTATE_BUDGET[0] <= 0:
        return {"skip": True}
    _MUTATE_BUDGET[0] -= 1
    return gen_reject(rng) if case.get("rel", "").startswith("reject:") else gen_pair(rng)


# ---------------------------------------------------------------- implementation driver
KINDS = {"set": set, "frozenset": frozenset, "list": list, "tuple": tuple}


def _arg(x):
    """the caller's collection, built ONCE per case and handed to every call of the case"""
    return None if x is None else KINDS[x["as"]](x["v"])


def _snap(coll):
    return None if coll is None else list(coll)


def impl(case):
    import circuitgraph as cg
    if case.get("skip"):
        return {"skip": True}
    c0 = lib.build_circuit(case["c0"])
    c1 = lib.build_circuit(case["c1"]) if case["c1"] is not None else None
    S, E = _arg(case["S"]), _arg(case["E"])
    second = case.get("second", "same")
    pairs = [(case["c0"], case["c1"], c0, c1)]
    if second == "swap" and c1 is not None and case["c1"]["nodes"]:
        pairs.append((case["c1"], case["c0"], c1, c0))
    elif second == "self":
        pairs.append((case["c0"], None, c0, None))
    else:
        pairs.append(pairs[0])
    calls = []
    for d0, d1, a, b in pairs:
        before = (lib.dump_circuit(a), lib.dump_circuit(b) if b is not None else None)
        obs = {"c0": d0, "c1": d1, "S": _snap(S), "E": _snap(E)}        # content and iteration order at call time
        try:
            m = cg.tx.miter(a, b, startpoints=S, endpoints=E)
            obs["out"] = lib.dump_circuit(m)
            try:                                   # the decision the property says follows: is `sat` = 1 possible?
                obs["solve"] = bool(cg.sat.solve(m, {"sat": True}))
            except Exception as e2:  # noqa: BLE001
                obs["solve_exc"] = type(e2).__name__
        except Exception as e:  # noqa: BLE001
            obs["exc"] = type(e).__name__
        obs["S_after"], obs["E_after"] = _snap(S), _snap(E)
        if before != (lib.dump_circuit(a), lib.dump_circuit(b) if b is not None else None):
            obs["mutated_argument"] = True
        calls.append(obs)
    return {"calls": calls}


EXN = {"ValueError", "KeyError", "IndexError", "NotImplementedError", "StopIteration"}


def _copt(x):
    return "None" if x is None else "(Some %s)" % csl(x)


def to_coq(case, obs):
    if obs.get("skip"):
        return None
    terms = []
    for o in obs["calls"]:
        c1 = "None" if o["c1"] is None else "(Some %s)" % ccirc(o["c1"])
        r = "(Ok %s)" % ccirc(o["out"]) if "out" in o else "(Raise %s)" % (o["exc"] if o["exc"] in EXN else "OtherError")
        sv = "(Some T)" if o.get("solve") is True else "(Some F)" if o.get("solve") is False else "None"
        terms.append("Call %s %s %s %s %s %s %s %s" % (ccirc(o["c0"]), c1, _copt(o["S"]), _copt(o["E"]), r, _copt(o["S_after"]), _copt(o["E_after"]), sv))
    return "CMiter [" + ";".join(terms) + "]"


def nontrivial(case, obs):
    o = obs["calls"][0] if obs.get("calls") else {}
    return "out" in o and any(n[1] in lib.GATES for n in case["c0"]["nodes"]) and len(o["out"]["nodes"]) >= 6


def classify(case, obs):
    if not obs.get("calls"):
        return ["skip"]
    o = obs["calls"][0]
    rel0 = case["rel"].split("+")[0].replace("no-endpoints:", "").replace("asym-outputs:", "")
    out = ["rel:" + (rel0 if not rel0.startswith("single:") else "single-operand-gate"), "result:" + ("ok" if "out" in o else o.get("exc", "?")),
           "second-call:" + case.get("second", "same") + ":" + ("ok" if "out" in obs["calls"][-1] else obs["calls"][-1].get("exc", "?"))]
    if "no-endpoints:" in case["rel"]:
        out.append("no-endpoints")
    if "asym-outputs:" in case["rel"]:
        out.append("asym-outputs")
    for k in ("S", "E"):
        x = case[k]
        out.append(f"{k}:" + ("default" if x is None else "empty" if not x["v"] else "single" if len(x["v"]) == 1 else "subset") +
                   ("" if x is None else ":" + x["as"]))
    if "solve" in o:
        out.append("solve:" + ("sat=1 possible" if o["solve"] else "False"))
    if "solve_exc" in o:
        out.append("solve:exception:" + o["solve_exc"])
    if "out" in o:
        sat = [n for n in o["out"]["nodes"] if n[0] == "sat"]
        if sat:
            out.append("sat:" + str(sat[0][1]))
    if any(c.get("mutated_argument") for c in obs["calls"]):
        out.append("mutated-circuit-argument")
    if any(c["S"] != c["S_after"] or c["E"] != c["E_after"] for c in obs["calls"]):
        out.append("changed-collection-argument")
    return out


def finding_signature(case, obs):
    return None


CLAIMED = True
LEVEL_TEXT = ("Theorems over the model of tx.miter (written call by call on the API model), for every accepted call incl. defaults, self-miter "
              "and empty comparison: inputs = tied startpoints, sat the only output; a valuation is consistent for the miter iff its "
              "pull-backs along c0_/c1_ are consistent for strip_io(c0)/strip_io(c1), tied startpoints are shared, every dif_e is the xor of "
              "the two copies and sat is their disjunction; hence sat = 1 iff some compared node differs, and for every sound and complete "
              "solve (a quantified function, not an axiom) solve(miter, sat) is False iff the circuits agree on E for all valuations that "
              "agree on the tied startpoints; the miter of lint-clean circuits whose inputs are all tied is lint-clean (C20's clause). The model is tied to tx.miter by correspondence; the property is also decided on every "
              "returned miter by an exhaustive sweep whose completeness is proved.")
LEVEL_NOTE = ("Trusted: Coq kernel + vm_compute, std++, the API model of Base/Api.v (tied to circuit.py by correspondence here and in C07), "
              "Gen_types translator shapes, harness canonicalisation. External: SAT solver as Section variable (sound + complete). "
              "Boundary: an explicitly empty startpoint/endpoint collection is indistinguishable from the default in the code and is modelled so.")
TECHNIQUE = "Coq proof (miter semantics and unsat-iff-equivalent corollary over the API model) + vm_compute correspondence and exhaustive-valuation oracle"
