"""C05: limit_fanin / limit_fanout / insert_registers (and acyclic_unroll on acyclic circuits) preserve function."""
import json

import lib
from lib import cs, cl, ccirc, cnat, csl

ID = "C05"
RUN_MODULE = "Run.Run_C05"
GEN_FILES = ["Gen_limit.v", "Gen_lint.v", "Gen_types.v"]
RULE = ("structured: one target gate of every multi-input type with fan-in k-1, k, k+1, 2k+1 (limit_fanin) / one source node of "
        "every type (input, constants, every gate type) with k-1, k, k+1, 2k+1 loads of mixed types (limit_fanout) for k in 2..5, "
        "operands drawn from inputs, constants and derived gates, helper-name clashes (<n>_limit_fanin_<i>, ..._<i>_0, "
        "<n>_limit_fanout_<i>, <n>_cg_insert_reg_q_<i>), second target above k, downstream logic; random lint-clean DAGs with "
        "fan-in up to 7; small cyclic circuits (loop through / self loop on the limited node, judged by brute force over all valuations); insert_registers on DAGs of depth >= 2 with num_stages 0..3 (with and without a node called clk, clk "
        "as a gate); acyclic_unroll on acyclic circuits; k in {0,1} for the documented rejection. "
        "non-trivial = at least one helper node / flop was inserted (or the call was rejected as documented); distinct = canonical input")
EXPLANATION = ("run validators for limit_fanin/limit_fanout and a model of insert_registers proved function-preserving for all circuits, "
               "all k >= 2 and all accepted executions (set orders); tied to tx.py by the regenerated gatemap/guards/helper type and "
               "by replaying every implementation run through the validators")
SHARD = 48
HASHSEEDS = {"quick": [0, 1], "thorough": [0, 1, 2, 3, 4, 5, 6, 7]}
MULTI = lib.MULTI


# ------------------------------------------------------------------ generators
def _names(rng):
    style = rng.choice(["n", "short", "w_"])
    if style == "short":
        return lambda i: "abcdefghijklmnopqrstuvwxyz"[i % 26] + (str(i // 26) if i >= 26 else "")
    return lambda i: f"{style}{i}"


def _operand_pool(rng, nodes, nm, k0, want, p_const=0.3):
    """inputs, maybe constants, then derived gates until `want` distinct operand nodes exist; returns (pool, next index)"""
    n_in = rng.randint(2, max(2, min(6, want)))
    pool = []
    k = k0
    for _ in range(n_in):
        nodes.append([nm(k), "input", False, []]); pool.append(nm(k)); k += 1
    for cst in ("0", "1", "x"):
        if rng.random() < (p_const if cst != "x" else p_const / 3):
            nodes.append([nm(k), cst, False, []]); pool.append(nm(k)); k += 1
    while len(pool) < want:
        if rng.random() < 0.4:
            nodes.append([nm(k), rng.choice(["not", "buf"]), False, [rng.choice(pool)]])
        else:
            nodes.append([nm(k), rng.choice(MULTI), False, sorted(rng.sample(pool, 2))])
        pool.append(nm(k)); k += 1
    return pool, k


def _fresh(nodes, base):
    used = {n[0] for n in nodes}
    n, k = base, 0
    while n in used:
        n, k = f"{base}{k}x", k + 1
    return n


def _check_unique(d):
    names = [n[0] for n in d["nodes"]]
    assert len(names) == len(set(names)), names
    return d


def _rename(d, old, new):
    if any(n[0] == new for n in d["nodes"]):
        return
    for n in d["nodes"]:
        if n[0] == old:
            n[0] = new
        n[3] = sorted(new if f == old else f for f in n[3])


def _finish(rng, d):
    """mark sinks as outputs, shuffle insertion order"""
    used = {f for n in d["nodes"] for f in n[3]}
    for n in d["nodes"]:
        if n[0] not in used and n[1] not in ("input",):
            n[2] = True
        elif rng.random() < 0.15:
            n[2] = True
    if rng.random() < 0.5:
        rng.shuffle(d["nodes"])
    return _check_unique(d)


def gen_fanin_struct(rng, t, k, ar):
    nm = _names(rng)
    nodes = []
    pool, idx = _operand_pool(rng, nodes, nm, 0, max(ar, 2))
    g = _fresh(nodes, rng.choice(["g", "tgt", nm(idx)])); idx += 1
    nodes.append([g, t, rng.random() < 0.5, sorted(rng.sample(pool, ar))])
    d = {"name": "top", "nodes": nodes, "bbs": []}
    tags = []
    # downstream logic, a second gate above k
    if rng.random() < 0.5:
        nodes.append([_fresh(nodes, nm(idx)), rng.choice(["not", "buf"] + MULTI), True, sorted({g, rng.choice(pool)})][:4]); idx += 1
        if nodes[-1][1] in ("not", "buf"):
            nodes[-1][3] = [g]
    if rng.random() < 0.35 and len(pool) > k:
        t2 = rng.choice(MULTI)
        nodes.append([_fresh(nodes, nm(idx)), t2, True, sorted(rng.sample(pool + [g], min(len(pool) + 1, k + rng.randint(1, 2))))]); idx += 1
        tags.append("second")
    # helper-name clashes
    r = rng.random()
    cand = [n[0] for n in nodes if n[0] != g]
    if r < 0.35 and cand:
        _rename(d, rng.choice(cand), f"{g}_limit_fanin_0"); tags.append("clash0")
        cand = [n[0] for n in nodes if n[0] != g and "_limit_" not in n[0]]
        if rng.random() < 0.5 and cand:
            _rename(d, rng.choice(cand), f"{g}_limit_fanin_0_0"); tags.append("clash0_0")
        if rng.random() < 0.3 and len(cand) > 1:
            cand = [n[0] for n in nodes if n[0] != g and "_limit_" not in n[0]]
            _rename(d, rng.choice(cand), f"{g}_limit_fanin_1"); tags.append("clash1")
    return {"fn": "limit_fanin", "circuit": _finish(rng, d), "k": k, "tags": ["struct", t, f"ar=k{ar - k:+d}" if ar != 2 * k + 1 else "ar=2k+1"] + tags}


SRC_TYPES = ["input", "0", "1", "x", "buf", "not"] + MULTI


def gen_fanout_struct(rng, t, k, nl):
    nm = _names(rng)
    nodes = []
    pool, idx = _operand_pool(rng, nodes, nm, 0, 3, p_const=0.15)
    s = _fresh(nodes, rng.choice(["s", "src", nm(idx)])); idx += 1
    if t in ("input", "0", "1", "x"):
        nodes.append([s, t, rng.random() < 0.3, []])
    elif t in ("buf", "not"):
        nodes.append([s, t, rng.random() < 0.3, [rng.choice(pool)]])
    else:
        nodes.append([s, t, rng.random() < 0.3, sorted(rng.sample(pool, rng.randint(2, min(3, len(pool)))))])
    loads = []
    tags = []
    for _ in range(nl):
        lt = rng.choice(["buf", "not"] + MULTI + MULTI)
        if lt in ("buf", "not"):
            fi = [s]
        else:
            others = pool + (loads if rng.random() < 0.3 else [])
            fi = sorted({s, *rng.sample(others, rng.randint(0 if rng.random() < 0.15 else 1, min(2, len(others))))})
        ln = _fresh(nodes, nm(idx)); nodes.append([ln, lt, rng.random() < 0.4, fi]); loads.append(ln); idx += 1
    d = {"name": "top", "nodes": nodes, "bbs": []}
    if rng.random() < 0.3 and loads:
        # a second node above k: one of the operands drives many loads too
        p = rng.choice(pool)
        if nodes[[n[0] for n in nodes].index(p)][1] in ("input", "0", "1", "x", "buf", "not") or True:
            for n in nodes:
                if n[0] in loads and n[1] in MULTI and rng.random() < 0.8:
                    n[3] = sorted(set(n[3]) | {p})
            tags.append("second")
    cand = [n[0] for n in nodes if n[0] != s]
    if rng.random() < 0.35 and cand:
        _rename(d, rng.choice(cand), f"{s}_limit_fanout_0"); tags.append("clash0")
        cand = [n[0] for n in nodes if n[0] != s and "_limit_" not in n[0]]
        if rng.random() < 0.5 and cand:
            _rename(d, rng.choice(cand), f"{s}_limit_fanout_0_0"); tags.append("clash0_0")
    return {"fn": "limit_fanout", "circuit": _finish(rng, d), "k": k, "tags": ["struct", t, f"fo=k{nl - k:+d}" if nl != 2 * k + 1 else "fo=2k+1"] + tags}


def gen_cyclic(rng, fn):
    """small lint-clean circuits with a combinational loop through (or a self loop on) the node that is limited;
    judged by the brute-force branch of the oracle (all valuations of all nodes)"""
    k = 2
    nodes = [["a", "input", False, []], ["b", "input", False, []]]
    if fn == "limit_fanin":
        ar = 3
        d = ["d", rng.choice(MULTI), False, ["a", "b"]]
        pool = ["a", "b", "d"]
        if rng.random() < 0.3:
            nodes.append(["c", rng.choice(["input", "0", "1"]), False, []]); pool.append("c")
        g = ["g", rng.choice(MULTI), True, sorted(rng.sample(pool, min(ar, len(pool))))]
        mode = rng.choice(["loop", "self"])
        if mode in ("loop", "both"):
            d[3] = sorted(set(d[3]) | {"g"}); g[3] = sorted(set(g[3]) | {"d"})
        if mode in ("self", "both"):
            g[3] = sorted(set(g[3]) | {"g"})
        nodes += [d, g]
        if rng.random() < 0.5:
            nodes.append(["h", "not", True, ["g"]])
    else:
        nl = 3
        s = ["s", rng.choice(MULTI), rng.random() < 0.3, ["a", "b"]]
        loads = []
        for j in range(nl):
            lt = rng.choice(["buf", "not"] + MULTI)
            loads.append([f"l{j}", lt, True, ["s"] if lt in ("buf", "not") else sorted({"s", rng.choice(["a", "b"])})])
        mode = rng.choice(["loop", "self"])
        if mode in ("loop", "both"):
            s[3] = sorted(set(s[3]) | {loads[0][0]})
        if mode in ("self", "both"):
            s[3] = sorted(set(s[3]) | {"s"})
        nodes += [s] + loads
    d_ = {"name": "top", "nodes": nodes, "bbs": []}
    if rng.random() < 0.5:
        rng.shuffle(d_["nodes"])
    return {"fn": fn, "circuit": _check_unique(d_), "k": k, "tags": ["cyclic"]}


def gen_random(rng, fn):
    d = lib.rand_dag(rng, rng.randint(2, 5), rng.randint(3, 10), max_fanin=rng.choice([3, 5, 7]), p_const=0.3,
                     consts=("0", "1", "x") if rng.random() < 0.3 else ("0", "1"))
    if rng.random() < 0.3:
        d = lib.shuffle_nodes(rng, d)
    return {"fn": fn, "circuit": d, "k": rng.choice([2, 2, 3, 3, 4, 5]), "tags": ["random"]}


def gen_with_bb(rng, fn):
    """limit_* on a circuit that contains a flip-flop blackbox (registry must come back unchanged, pins stay wired)"""
    k = rng.choice([2, 2, 3])
    if fn == "limit_fanin":
        case = gen_fanin_struct(rng, rng.choice(MULTI), k, rng.choice([k + 1, k + 2]))
    else:
        case = gen_fanout_struct(rng, rng.choice(SRC_TYPES), k, rng.choice([k + 1, k + 2]))
    d = case["circuit"]
    cand = [n[0] for n in d["nodes"] if "." not in n[0]]
    d = lib.add_flop(rng, d, inst=rng.choice(["ff0", "u1"]), on=rng.choice(cand), clk=rng.choice(["clk", "ck"]))
    case["circuit"] = _check_unique(d)
    case["tags"] = [t for t in case["tags"] if t != "struct"] + ["bb"]
    return case


def gen_twice(rng, fn):
    """the function applied to its own result with a smaller k: helper names of the first call are taken when the second runs"""
    k1 = rng.choice([3, 4])
    if fn == "limit_fanin":
        case = gen_fanin_struct(rng, rng.choice(MULTI), k1, rng.choice([2 * k1 + 1, k1 + 2]))
    else:
        case = gen_fanout_struct(rng, rng.choice(SRC_TYPES), k1, rng.choice([2 * k1 + 1, k1 + 2]))
    case["k1"] = k1
    case["k"] = 2
    case["tags"] = [t for t in case["tags"] if t != "struct"] + ["twice"]
    return case


def gen_kinds(rng, fn):
    """k given as a bool (True == 1 and False == 0 are below the limit) or much larger than any fan-in"""
    d = lib.rand_dag(rng, 3, 4, max_fanin=4)
    return {"fn": fn, "circuit": d, "k": rng.choice([True, False, 1000, 64]), "tags": ["k-kind"]}


REG_VARIANTS = ["ports", "two-other", "suffix", "key-ne-value", "extra-output"]


def gen_regs_args(rng):
    """insert_registers with a non-default flop, port names, other_flop_io and suffix"""
    v = rng.choice(REG_VARIANTS)
    small = v == "extra-output"
    d = lib.rand_dag(rng, rng.randint(2, 3), rng.randint(3, 4 if small else 7), max_fanin=3, p_const=0.1, types=lib.GATES)
    args = {"ff": ["ff", ["clk", "d"], ["q"]], "d": "d", "q": "q", "other": [["clk", "clk"]], "suffix": "_cg_insert_reg_q_"}
    if v == "ports":
        args.update(ff=["dff", ["ck", "D"], ["Q"]], d="D", q="Q", other=[["ck", "ck"]])
    elif v == "two-other":
        args.update(ff=["dffr", ["clk", "d", "rst"], ["q"]], other=[["clk", "clk"], ["rst", "rst"]])
        if rng.random() < 0.5:
            _rename(d, rng.choice([n[0] for n in d["nodes"] if n[1] == "input"]), "rst")
    elif v == "suffix":
        args.update(suffix=rng.choice(["_q_", "_r", "__reg"]))
    elif v == "key-ne-value":
        # the key is added as an input and names the port, the value is the node wired to it
        _rename(d, rng.choice([n[0] for n in d["nodes"] if n[1] == "input"]), "clock")
        args.update(ff=["dff", ["ck", "d"], ["q"]], other=[["ck", "clock"]])
    else:
        args.update(ff=["dffn", ["clk", "d"], ["q", "qn"]])
    return {"fn": "insert_registers_args", "circuit": _check_unique(d), "stages": rng.choice([1, 1, 2] if not small else [2, 3]),
            "args": args, "tags": [v]}


def gen_reject(rng, fn):
    d = lib.rand_dag(rng, 2, 3, max_fanin=3)
    return {"fn": fn, "circuit": d, "k": rng.choice([0, 1]), "tags": ["k<2"]}


def gen_regs(rng):
    tags = []
    d = lib.rand_dag(rng, rng.randint(2, 4), rng.randint(3, 8), max_fanin=3, p_const=0.2, types=lib.GATES)
    names = [n[0] for n in d["nodes"]]
    r = rng.random()
    if r < 0.15:
        _rename(d, rng.choice([n[0] for n in d["nodes"] if n[1] == "input"]), "clk"); tags.append("clk-input")
    elif r < 0.3:
        _rename(d, rng.choice([n[0] for n in d["nodes"] if n[1] not in ("input", "0", "1", "x")]), "clk"); tags.append("clk-gate")
    if rng.random() < 0.25:
        tgt = rng.choice([n[0] for n in d["nodes"] if n[3]])
        lvl = rng.choice([1, 1, 2])
        cand = [n[0] for n in d["nodes"] if n[0] not in (tgt, "clk")]
        if cand:
            _rename(d, rng.choice(cand), f"{tgt}_cg_insert_reg_q_{lvl}"); tags.append("clash")
    if rng.random() < 0.3:
        d = lib.shuffle_nodes(rng, d)
    return {"fn": "insert_registers", "circuit": d, "stages": rng.choice([0, 1, 1, 1, 2, 2, 3]), "tags": tags}


def gen_regs_bb(rng):
    """insert_registers on an argument that already holds a flop instance (the registry and the pins of the argument must stay as they are)"""
    d = lib.rand_dag(rng, rng.randint(2, 3), rng.randint(3, 6), max_fanin=3, p_const=0.1, types=lib.GATES)
    gates = [n[0] for n in d["nodes"] if n[1] not in ("input", "0", "1", "x")]
    d = lib.add_flop(rng, d, inst=rng.choice(["r0", "u1", "ff_r"]), on=rng.choice(gates), clk=rng.choice(["clk", "clk", "ck"]))
    return {"fn": "insert_registers", "circuit": _check_unique(d), "stages": rng.choice([1, 1, 2, 3]), "tags": ["bb-arg"], "with_bb": True}


def gen_unroll(rng):
    d = lib.rand_dag(rng, rng.randint(1, 4), rng.randint(1, 7), max_fanin=4, p_const=0.2)
    return {"fn": "acyclic_unroll", "circuit": d, "tags": []}


def generate(rng, tier):
    reps = 1 if tier == "quick" else 3
    out = []
    for _ in range(reps):
        for k in (2, 3, 4, 5):
            for t in MULTI:
                for ar in (k - 1, k, k + 1, 2 * k + 1):
                    out.append(gen_fanin_struct(rng, t, k, ar))
            for t in SRC_TYPES:
                for nl in sorted({k - 1, k, k + 1, 2 * k + 1}):
                    if tier != "quick" or rng.random() < (0.35 if nl <= k else 0.75):
                        out.append(gen_fanout_struct(rng, t, k, nl))
    n = 28 if tier == "quick" else 150
    out += [gen_random(rng, "limit_fanin") for _ in range(n)] + [gen_random(rng, "limit_fanout") for _ in range(n)]
    out += [gen_cyclic(rng, fn) for fn in ("limit_fanin", "limit_fanout") for _ in range(10 if tier == "quick" else 40)]
    m = 6 if tier == "quick" else 30
    for fn in ("limit_fanin", "limit_fanout"):
        out += [gen_with_bb(rng, fn) for _ in range(m)] + [gen_twice(rng, fn) for _ in range(m)] + [gen_kinds(rng, fn) for _ in range(m // 2)]
    out += [gen_regs_bb(rng) for _ in range(12 if tier == "quick" else 80)]
    out += [gen_regs_args(rng) for _ in range(15 if tier == "quick" else 80)]
    out += [gen_reject(rng, rng.choice(["limit_fanin", "limit_fanout"])) for _ in range(4 if tier == "quick" else 12)]
    out += [gen_regs(rng) for _ in range(45 if tier == "quick" else 200)]
    out += [gen_unroll(rng) for _ in range(20 if tier == "quick" else 80)]
    rng.shuffle(out)      # mix the kinds so that the Coq shards cost about the same
    return out


# ------------------------------------------------------------------ implementation driver
def _steps_fanin(c0_nodes, r):
    """(n, f0, f1) per helper node, in creation order: fan-in of the helper = the two popped operands; n = the original node
    reached by following the helper's fan-out"""
    steps = []
    for m in r.graph.nodes:
        if m in c0_nodes:
            continue
        fi = sorted(r.graph.predecessors(m))
        n = m
        seen = set()
        while n not in c0_nodes:
            if n in seen:
                raise RuntimeError("helper chain loops")
            seen.add(n)
            fo = list(r.graph.successors(n))
            if len(fo) != 1:
                raise RuntimeError(f"helper {n} has fan-out {fo}")
            n = fo[0]
        if len(fi) != 2:
            raise RuntimeError(f"helper {m} has fan-in {fi}")
        steps.append([n, fi[0], fi[1]])
    return steps


def _steps_fanout(c0_nodes, r):
    steps = []
    for m in r.graph.nodes:
        if m in c0_nodes:
            continue
        fo = sorted(r.graph.successors(m))
        n = m
        seen = set()
        while n not in c0_nodes:
            if n in seen:
                raise RuntimeError("helper chain loops")
            seen.add(n)
            fi = list(r.graph.predecessors(n))
            if len(fi) != 1:
                raise RuntimeError(f"helper {n} has fan-in {fi}")
            n = fi[0]
        if len(fo) != 2:
            raise RuntimeError(f"helper {m} has fan-out {fo}")
        steps.append([n, fo[0], fo[1]])
    return steps


def impl(case):
    import circuitgraph as cg
    c = lib.build_circuit(case["circuit"])
    fn = case["fn"]
    obs = {}
    if "k1" in case:
        # first application; the case proper is the second one, on the returned circuit
        c = (cg.tx.limit_fanin if fn == "limit_fanin" else cg.tx.limit_fanout)(c, case["k1"])
        obs["mid"] = lib.dump_circuit(c)
    before = lib.dump_circuit(c)
    try:
        if fn == "limit_fanin":
            r = cg.tx.limit_fanin(c, case["k"])
            obs["steps"] = _steps_fanin(set(c.graph.nodes), r)
        elif fn == "limit_fanout":
            r = cg.tx.limit_fanout(c, case["k"])
            obs["steps"] = _steps_fanout(set(c.graph.nodes), r)
        elif fn == "insert_registers":
            obs["order"] = list(c.graph.nodes)
            r = cg.tx.insert_registers(c, case["stages"])
        elif fn == "insert_registers_args":
            a = case["args"]
            ff = cg.BlackBox(a["ff"][0], a["ff"][1], a["ff"][2])
            obs["order"] = list(c.graph.nodes)
            obs["ins"] = list(ff.inputs())
            obs["outs"] = list(ff.outputs())
            other = {k: v for k, v in a["other"]}
            other_before = dict(other)
            r = cg.tx.insert_registers(c, case["stages"], ff=ff, d_port=a["d"], q_port=a["q"], other_flop_io=other, q_suffix=a["suffix"])
            if other != other_before:
                obs["argument_mutated"] = True
        elif fn == "acyclic_unroll":
            r = cg.tx.acyclic_unroll(c)
        else:
            raise RuntimeError("unknown fn")
        obs["out"] = lib.dump_circuit(r)
    except (ValueError, KeyError, IndexError, StopIteration, NotImplementedError, ZeroDivisionError, TypeError, AttributeError) as e:
        obs["exc"] = type(e).__name__
    if lib.dump_circuit(c) != before:
        obs["argument_mutated"] = True
    if fn in ("insert_registers", "insert_registers_args"):
        # the argument is used again: a second call on the same object must do exactly what the first one did
        try:
            if fn == "insert_registers":
                r2 = cg.tx.insert_registers(c, case["stages"])
            else:
                r2 = cg.tx.insert_registers(c, case["stages"], ff=ff, d_port=a["d"], q_port=a["q"], other_flop_io=dict(other_before), q_suffix=a["suffix"])
            second = {"out": lib.dump_circuit(r2)}
        except (ValueError, KeyError, IndexError, StopIteration, NotImplementedError, ZeroDivisionError, TypeError, AttributeError) as e:
            second = {"exc": type(e).__name__}
        if second != {k: obs[k] for k in ("out", "exc") if k in obs}:
            obs["second_call_differs"] = second.get("exc", "different circuit")
        if lib.dump_circuit(c) != before:
            obs["argument_mutated"] = True
    return obs


def cres(obs):
    if obs.get("argument_mutated") or obs.get("second_call_differs"):
        return "(Raise OtherError)"      # no case kind accepts this outcome: reported as an oracle failure with the observation in the replay
    if "out" in obs:
        return "(Ok %s)" % ccirc(obs["out"])
    e = obs.get("exc", "OtherError")
    if e in ("ValueError", "KeyError", "IndexError", "StopIteration", "NotImplementedError"):
        return f"(Raise {e})"
    return "(Raise OtherError)"


def csteps(steps):
    return cl("(%s,%s,%s)" % (cs(a), cs(b), cs(c)) for a, b, c in steps)


def cargs(a, obs):
    ff = "(mk_bb %s %s %s)" % (cs(a["ff"][0]), csl(a["ff"][1]), csl(a["ff"][2]))
    other = cl("(%s,%s)" % (cs(k), cs(v)) for k, v in a["other"])
    return "{| ra_ff := %s; ra_ins := %s; ra_outs := %s; ra_d := %s; ra_q := %s; ra_other := %s; ra_suffix := %s |}" % (
        ff, csl(obs.get("ins", a["ff"][1])), csl(obs.get("outs", a["ff"][2])), cs(a["d"]), cs(a["q"]), other, cs(a["suffix"]))


def to_coq(case, obs):
    fn = case["fn"]
    C = ccirc(obs["mid"] if "mid" in obs else case["circuit"])
    if fn == "insert_registers_args":
        kind = "CRegsW" if case.get("outside") else "CRegsG"
        return f"{kind} {C} {cnat(case['stages'])} {csl(obs.get('order', []))} {cargs(case['args'], obs)} {cres(obs)}"
    if fn == "limit_fanin":
        return f"CFanin {C} {cnat(int(case['k']))} {csteps(obs.get('steps', []))} {cres(obs)}"
    if fn == "limit_fanout":
        return f"CFanout {C} {cnat(int(case['k']))} {csteps(obs.get('steps', []))} {cres(obs)}"
    if fn == "insert_registers" and case.get("with_bb"):
        return f"CRegsB {C} {cnat(case['stages'])} {csl(obs.get('order', []))} {cres(obs)}"
    if fn == "insert_registers":
        return f"CRegs {C} {cnat(case['stages'])} {csl(obs.get('order', []))} {cres(obs)}"
    return f"CUnroll {C} {cres(obs)}"


def nontrivial(case, obs):
    fn = case["fn"]
    if "out" not in obs:
        return fn.startswith("limit_") and int(case["k"]) < 2
    if fn.startswith("limit_"):
        return len(obs.get("steps", [])) >= 1
    if fn in ("insert_registers", "insert_registers_args"):
        return len(obs["out"]["bbs"]) >= 1
    return len(obs["out"]["nodes"]) >= 4


def classify(case, obs):
    fn = case["fn"]
    out = [fn + (":exc:" + obs.get("exc", "?") if "out" not in obs else "")]
    if fn.startswith("limit_"):
        out.append(f"{fn}:k={case['k']!r}")
        out.append(f"{fn}:steps={min(len(obs.get('steps', [])), 6)}")
        tags = case.get("tags", [])
        if "struct" in tags:
            out.append(f"{fn}:{tags[1]}:{tags[2]}")
        out += [f"{fn}:{t}" for t in tags if t in ("clash0", "clash0_0", "clash1", "second", "random", "k<2", "cyclic", "bb", "twice", "k-kind")]
    elif fn in ("insert_registers", "insert_registers_args"):
        out.append(f"{fn}:stages={case['stages']}")
        if "out" in obs:
            out.append(f"{fn}:flops={min(len(obs['out']['bbs']), 6)}")
        out += [f"{fn}:{t}" for t in case.get("tags", [])]
        if case.get("outside"):
            out.append(f"{fn}:outside-guards")
    return out


def finding_signature(case, obs):
    return None


def mutate_case(rng, case):
    fn = case["fn"]
    if fn == "insert_registers_args":
        return gen_regs_args(rng)
    if fn == "limit_fanin":
        return gen_fanin_struct(rng, rng.choice(MULTI), rng.randint(2, 4), rng.randint(2, 7)) if rng.random() < 0.5 else gen_random(rng, fn)
    if fn == "limit_fanout":
        return gen_fanout_struct(rng, rng.choice(SRC_TYPES), rng.randint(2, 4), rng.randint(2, 7)) if rng.random() < 0.5 else gen_random(rng, fn)
    if fn == "insert_registers":
        return gen_regs(rng)
    return gen_unroll(rng)


WIDEN = 2
CLAIMED = True
LEVEL_TEXT = ("Theorems (all circuits incl. cyclic ones, all k >= 2, all executions accepted by the run validators, i.e. all set orders): "
              "limit_fanin / limit_fanout return a circuit with the same inputs and outputs, the fan-in / fan-out bound, and the same "
              "consistent valuations on the original nodes (equivalence both ways), under a decidable obligation on the regenerated "
              "gatemap / helper type; insert_registers: with every inserted flop transparent the result has the same behaviours on the "
              "original nodes. Every implementation run of the check is replayed through the validators and judged by the executable "
              "specification (exhaustive valuation sweep with consistency certificates).")
LEVEL_NOTE = ("Trusted: Coq kernel + vm_compute, std++, translator shapes for tx.limit_fanin/limit_fanout (loop structure compared "
              "textually, fail closed), harness canonicalisation and read-back of the steps from the result. The graph effects of "
              "add/connect/disconnect/add_blackbox inside the three functions are modelled directly (not through Base/Api.v) and tied "
              "by correspondence only; Python's round() is modelled by integer round-half-even (exact for depths < 2^52). "
              "acyclic_unroll on acyclic circuits is oracle-level here (the construction is proved in C18).")
TECHNIQUE = "Coq proof over replay validators + regenerated gatemap obligation + vm_compute correspondence and exhaustive-valuation oracle"
