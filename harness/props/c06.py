"""C06: hierarchical composition (add_subcircuit, add_blackbox, fill_blackbox, strip_blackboxes) is functional substitution."""
import json

import lib
from lib import cs, cb, ccirc, csl, cl

ID = "C06"
RUN_MODULE = "Run.Run_C06"
GEN_FILES = ["Gen_types.v"]
RULE = ("histories of 1-4 composition calls on a random parent (<= 9 nodes, some undriven buffers as attachment points) and random "
        "children (<= 7 nodes, optionally containing a flip-flop blackbox): add_subcircuit with arbitrary connection maps (child inputs "
        "fed from any net incl. nodes of earlier instances, child outputs driving 1-2 undriven buffers, unconnected io, str and list "
        "values, strip_io on/off; instance and pin names with dots such as core.mux0), repeated instantiation (also passing the SAME connections "
        "dict / child / BlackBox object to every call, with a snapshot of the arguments after each call), add_blackbox + fill_blackbox (two instances filled in either order, nested "
        "fill of a child's blackbox; blackboxes whose 2-4 pins are declared in another order than the filling circuit creates them, pin "
        "names from a pool of 34; children with two blackbox instances of different types, both carried instances filled), strip_blackboxes with ignore_pins None/str/list (incl. instances a.b / a_b whose pins collide after renaming and cells "
        "whose pin names are suffixes of one another: D/SD, O/CO, q/nq on input and output side), and a rejection stream (clashing node / registry "
        "names, unknown keys, io mismatch, illegal connections); every step is one observation (state before, arguments, state after, "
        "outcome); non-trivial = an accepted call that attaches at least one net or fills/strips a blackbox; distinct = canonical case hash")
EXPLANATION = ("specifications of add_subcircuit, add_blackbox, fill_blackbox, strip_blackboxes proved over the API model (structure, registry, "
               "consistent-valuation characterisation); model tied to the class by correspondence per step; the property's clauses are decided "
               "on every recorded result by exhaustive evaluation")
SHARD = 6
MAX_FREE = 9          # exhaustive sweeps: histories whose result has more free nodes are not evaluated (counted in the evidence)
HASHSEEDS = {"quick": [0, 1], "thorough": [0, 1, 2]}


# ---------------------------------------------------------------- generator
def _names(prefix):
    return lambda i: f"{prefix}{i}"


def gen_parent(rng, holes=None):
    d = lib.rand_dag(rng, rng.randint(1, 3), rng.randint(1, 4), max_fanin=3, p_const=0.15, names=_names(rng.choice(["n", "w_", "p"])))
    d["name"] = "top"
    # attachment points: undriven buffers feeding the logic (what the API wants child outputs to drive)
    k = rng.randint(1, 3) if holes is None else holes
    base = len(d["nodes"])
    for j in range(k):
        h = f"h{j}"
        d["nodes"].append([h, "buf", False, []])
        # let the hole feed a gate (new or existing) so that its value matters
        gates = [n for n in d["nodes"] if n[1] in lib.MULTI]
        if gates and rng.random() < 0.6:
            g = rng.choice(gates)
            g[3] = sorted(set(g[3]) | {h})
        else:
            src = rng.choice([n[0] for n in d["nodes"][:base]])
            d["nodes"].append([f"g{j}", rng.choice(lib.MULTI), rng.random() < 0.7, sorted({src, h})])
    if rng.random() < 0.25:
        d = lib.add_flop(rng, d, inst="pf", clk="pclk")
    return d


def gen_child(rng, flop=False, clean_io=False, prefix=None):
    d = lib.rand_dag(rng, rng.randint(1, 2), rng.randint(1, 3), max_fanin=3, p_const=0.15,
                     names=_names(prefix or rng.choice(["a", "x_", "n"])))
    d["name"] = "child"
    if clean_io:
        for n in d["nodes"]:
            if n[1] == "input":
                n[2] = False
    elif rng.random() < 0.2:
        rng.choice([n for n in d["nodes"] if n[1] == "input"])[2] = True      # an io key that is input AND output: attached as an input
    if flop:
        d = lib.add_flop(rng, d, inst="ff0", clk="ck")
    return d


def flop_body(rng):
    """a circuit with the io of the `ff` blackbox of lib.add_flop (inputs clk, d; output q)"""
    t = rng.choice(["buf", "and", "xor", "not"])
    fi = ["d"] if t in ("buf", "not") else ["clk", "d"]
    return {"name": "ffbody", "nodes": [["clk", "input", False, []], ["d", "input", False, []], ["q", t, True, fi]], "bbs": []}


def sel(rng, kind=None):
    return {"sel": kind or "any", "k": rng.randrange(1000)}


def conn_spec(rng, sc, p_in=0.7, p_out=0.7, bb=False):
    """symbolic connection map: resolved against the live circuit inside impl (so that choices are always meaningful)"""
    ins = [n[0] for n in sc["nodes"] if n[1] == "input"]
    outs = [n[0] for n in sc["nodes"] if n[2] and n[1] != "input"]
    spec = []
    for o in outs:                      # outputs first: their targets constrain where inputs may come from (no cycles)
        if rng.random() < p_out:
            m = 1 if bb or rng.random() < 0.75 else 2
            spec.append([o, [sel(rng, "freebuf") for _ in range(m)], rng.random() < 0.5])
    for i in ins:
        if rng.random() < p_in:
            spec.append([i, [sel(rng, "any")], rng.random() < 0.5])
    if rng.random() < 0.5:
        rng.shuffle(spec)
    return spec


def scen_sub(rng):
    p = gen_parent(rng)
    ops = []
    k = rng.choice([1, 1, 2, 2, 3])
    child = gen_child(rng, flop=rng.random() < 0.25)
    for j in range(k):
        if j and rng.random() < 0.4:
            child = gen_child(rng, flop=rng.random() < 0.2)
        strip = rng.random() < 0.82
        # strip_io=False keeps the child's inputs as `input` nodes (they cannot be driven: only output attachments are accepted)
        spec = conn_spec(rng, child) if strip or rng.random() < 0.3 else conn_spec(rng, child, 0.0, 0.8)
        ops.append({"op": "sub", "sc": child, "name": f"u{j}" if rng.random() < 0.8 else rng.choice(["s", "top", "u_0", f"core.u{j}", f"a.b{j}"]),
                    "conns": spec, "strip": strip})
    if any(o["sc"]["bbs"] for o in ops) and rng.random() < 0.6:
        j = rng.choice([i for i, o in enumerate(ops) if o["sc"]["bbs"]])
        ops.append({"op": "fill", "inst": f"{ops[j]['name']}_ff0", "sc": flop_body(rng)})       # nested blackbox filled afterwards
    if rng.random() < 0.3:
        ops.append({"op": "strip", "ign": rng.choice([None, "clk", ["clk", "ck"], ["q"], []])})
    return {"parent": p, "ops": ops, "kind": "sub"}


def bb_of(sc, name="blk"):
    return [name, sorted(n[0] for n in sc["nodes"] if n[1] == "input"), sorted(n[0] for n in sc["nodes"] if n[2])]


def scen_fill(rng):
    p = gen_parent(rng, holes=rng.randint(2, 3))
    c0 = gen_child(rng, flop=rng.random() < 0.2, clean_io=True)
    c1 = gen_child(rng, clean_io=True) if rng.random() < 0.5 else c0
    b0 = rng.choice(["b0", "b0", "b0", "core.mux0", "x.y"])         # instance names may contain dots: inst.pin -> inst_pin by NAME
    b1 = rng.choice(["b1", "b1", "core.mux1"])
    ops = [{"op": "bb", "bb": bb_of(c0), "inst": b0, "conns": conn_spec(rng, c0, 0.8, 0.9, bb=True)}]
    two = rng.random() < 0.5
    if two:
        ops.append({"op": "bb", "bb": bb_of(c1), "inst": b1, "conns": conn_spec(rng, c1, 0.8, 0.9, bb=True)})
    if rng.random() < 0.3:
        sc = gen_child(rng)
        ops.append({"op": "sub", "sc": sc, "name": "u0", "conns": conn_spec(rng, sc), "strip": True})
    fills = [{"op": "fill", "inst": b0, "sc": c0}] + ([{"op": "fill", "inst": b1, "sc": c1}] if two else [])
    if rng.random() < 0.5:
        fills.reverse()
    if rng.random() < 0.25:
        ops.append({"op": "strip", "ign": rng.choice([None, None, [bb_of(c0)[1][0]] if bb_of(c0)[1] else None])})
    ops += fills
    if c0["bbs"] and rng.random() < 0.7:
        ops.append({"op": "fill", "inst": f"{b0}_ff0", "sc": flop_body(rng)})
    return {"parent": p, "ops": ops, "kind": "fill"}


def scen_strip(rng):
    p = gen_parent(rng, holes=rng.randint(0, 2))
    p = lib.add_flop(rng, p, inst=rng.choice(["ff0", "r1"]), clk="clk", unconnected=rng.random() < 0.2)
    if rng.random() < 0.4:
        p = lib.add_flop(rng, p, inst="ff1", clk="clk")
    ign = rng.choice([None, None, "clk", ["clk"], ["q"], ["d", "clk"], "", []])
    ops = [{"op": "strip", "ign": ign}]
    if rng.random() < 0.12:
        # two instances whose pin names coincide after '.' -> '_' (finding C06-F1: used to be merged silently)
        p = lib.add_flop(rng, gen_parent(rng, holes=0), inst="a.b", clk="clk")
        p = lib.add_flop(rng, p, inst="a_b", clk="clk")
        return {"parent": p, "ops": [{"op": "strip", "ign": rng.choice([None, None, "clk", ["d", "clk", "q"]])}], "kind": "strip-collide"}
    if rng.random() < 0.25:     # clash: a node that already has the name a pin would get
        inst = p["bbs"][0][0]
        p["nodes"].append([f"{inst}_{rng.choice(['d', 'q', 'clk'])}", "buf", True, [p["nodes"][0][0]]])
    if rng.random() < 0.3:
        ops.append({"op": "fill", "inst": p["bbs"][0][0], "sc": flop_body(rng)})
        ops.append({"op": "strip", "ign": None})
    return {"parent": p, "ops": ops, "kind": "strip"}


def add_cell(rng, d, inst, bbname, ins, outs, unconnected=0.15):
    """Splice a blackbox instance with arbitrary pin names into a dump: input pins driven by existing nodes, each output pin
    driving a fresh buffer that is marked output or feeds a new gate."""
    d = json.loads(json.dumps(d))
    names = [n[0] for n in d["nodes"]]
    for p in ins:
        d["nodes"].append([f"{inst}.{p}", "bb_input", False, [] if rng.random() < unconnected else [rng.choice(names)]])
    for p in outs:
        d["nodes"].append([f"{inst}.{p}", "bb_output", False, []])
        if rng.random() > unconnected:
            b = f"{inst}_{p}_buf"
            d["nodes"].append([b, "buf", rng.random() < 0.6, [f"{inst}.{p}"]])
            if rng.random() < 0.5:
                d["nodes"].append([f"{inst}_{p}_g", rng.choice(lib.MULTI), True, sorted({b, rng.choice(names)})])
    d["bbs"] = d.get("bbs", []) + [[inst, bbname, sorted(ins), sorted(outs)]]
    return d


SUFFIX_CELLS = [(["D", "SD", "CK"], ["Q", "NQ"]), (["I", "CI"], ["O", "CO"]), (["d", "sd"], ["q", "nq"]), (["en", "den"], ["y", "ny", "y2"])]


def scen_strip_suffix(rng):
    """pins whose names are suffixes of one another (D / SD, O / CO, q / nq): ignore_pins must match the whole pin name"""
    p = gen_parent(rng, holes=rng.randint(0, 1))
    ins, outs = rng.choice(SUFFIX_CELLS)
    p = add_cell(rng, p, rng.choice(["u1", "ff", "x.y"]), "cell", ins, outs)
    if rng.random() < 0.3:
        ins2, outs2 = rng.choice(SUFFIX_CELLS)
        p = add_cell(rng, p, "u2", "cell2", ins2, outs2)
    short_i = min(ins, key=len)
    short_o = min(outs, key=len)
    long_i = max(ins, key=len)
    long_o = max(outs, key=len)
    ign = rng.choice([short_i, [short_i], short_o, [short_o], [short_i, short_o], long_i, [long_o], [short_o, long_i],
                      short_i.lower(), [short_i[-1:], "zz"], None])
    return {"parent": p, "ops": [{"op": "strip", "ign": ign}], "kind": "strip-suffix"}


PIN_POOL = ["d.in", "q.o", "a.b", "s", "t", "e", "d", "clk", "rst", "en", "sel", "a", "b", "cin", "D", "CK", "SE", "SD", "Q", "x", "y", "z", "in0", "in1", "in2",
            "p", "q", "r", "A", "B", "S", "i", "j", "k", "din", "we", "addr"]


def scen_fill_order(rng):
    """fill_blackbox where the BlackBox declares its 2-4 input pins in another order than the filling circuit creates them
    (pin sets carry no order: every pin must be wired to the node of the same NAME, whatever the set iteration orders are)"""
    p = gen_parent(rng, holes=rng.randint(1, 2))
    k = rng.choice([2, 3, 3, 4, 4, 4])
    words = rng.sample(PIN_POOL, 10)
    c = lib.rand_dag(rng, k, rng.randint(2, 3), max_fanin=3, names=lambda i: words[i] if i < len(words) else f"g{i}")
    c["name"] = "body"
    for n in c["nodes"]:
        if n[1] == "input":
            n[2] = False
    ins = [n[0] for n in c["nodes"] if n[1] == "input"]
    outs = [n[0] for n in c["nodes"] if n[2]]
    decl_in = list(reversed(ins)) if rng.random() < 0.7 else rng.sample(ins, len(ins))
    decl_out = list(reversed(outs)) if rng.random() < 0.7 else rng.sample(outs, len(outs))
    spec = [[o, [sel(rng, "freebuf")], rng.random() < 0.5] for o in outs if rng.random() < 0.8]
    spec += [[i, [sel(rng, "anyd")], rng.random() < 0.5] for i in ins]
    if rng.random() < 0.5:
        rng.shuffle(spec)
    inst = rng.choice(["u", "u", "core.mux0", "a.b", "t.u.v"])
    ops = [{"op": "bb", "bb": ["blk", decl_in, decl_out], "inst": inst, "conns": spec}, {"op": "fill", "inst": inst, "sc": c}]
    return {"parent": p, "ops": ops, "kind": "fill-order"}


def cell_body(rng, ins, outs):
    nodes = [[i, "input", False, []] for i in ins]
    for o in outs:
        t = rng.choice(["and", "or", "xor", "nand"]) if len(ins) > 1 else rng.choice(["buf", "not"])
        nodes.append([o, t, True, sorted(ins) if len(ins) > 1 else [ins[0]]])
    return {"name": "cellbody", "nodes": nodes, "bbs": []}


def scen_sub_two_bbs(rng):
    """a child with two blackbox instances of DIFFERENT types: each must be carried over with its own BlackBox, and both
    carried instances can be filled afterwards"""
    p = gen_parent(rng, holes=rng.randint(1, 2))
    c = lib.rand_dag(rng, 1, rng.randint(1, 2), max_fanin=2, names=_names(rng.choice(["a", "k"])))
    c["name"] = "child"
    c = lib.add_flop(rng, c, inst="ff0", clk="ck")
    cin, cout = rng.choice([(["I", "CI"], ["O"]), (["A"], ["Y", "YN"]), (["d", "clk", "e"], ["q"])])
    c = add_cell(rng, c, "m0", "cell", cin, cout, unconnected=0.0)
    if rng.random() < 0.5:
        c["bbs"].reverse()                # which of the two is registered last
    nm = rng.choice(["u0", "u0", "h.u0"])
    ops = [{"op": "sub", "sc": c, "name": nm, "conns": conn_spec(rng, c, 0.9, 0.5), "strip": True}]
    fills = [{"op": "fill", "inst": f"{nm}_m0", "sc": cell_body(rng, cin, cout)}, {"op": "fill", "inst": f"{nm}_ff0", "sc": flop_body(rng)}]
    if rng.random() < 0.5:
        fills.reverse()
    ops += fills[:rng.choice([1, 2, 2])]
    return {"parent": p, "ops": ops, "kind": "sub-two-bbs"}


def scen_shared_args(rng):
    """repeated instantiation passing the SAME connections dict object (and the same child / BlackBox object) to every call:
    the arguments belong to the caller, so the second call must mean what the first one meant"""
    p = gen_parent(rng, holes=rng.randint(0, 1))
    with_out = rng.random() < 0.2          # with output entries the second call is (rightly) rejected: target already driven
    if rng.random() < 0.6:
        child = gen_child(rng, flop=rng.random() < 0.15)
        spec = conn_spec(rng, child, 1.0, 0.9 if with_out else 0.0)
        ops = [{"op": "sub", "sc": child, "name": "u0", "conns": spec, "strip": True}]
        for j in range(1, rng.choice([2, 2, 3])):
            ops.append({"op": "sub", "sc": child, "name": f"u{j}", "conns": spec, "strip": True, "reuse": True})
    else:
        child = gen_child(rng, clean_io=True)
        spec = conn_spec(rng, child, 1.0, 0.9 if with_out else 0.0, bb=True)
        ops = [{"op": "bb", "bb": bb_of(child), "inst": "b0", "conns": spec},
               {"op": "bb", "bb": bb_of(child), "inst": "b1", "conns": spec, "reuse": True}]
        fills = [{"op": "fill", "inst": "b0", "sc": child}, {"op": "fill", "inst": "b1", "sc": child}]
        if rng.random() < 0.5:
            fills.reverse()
        ops += fills[:rng.choice([1, 2])]
    return {"parent": p, "ops": ops, "kind": "shared-args"}


def scen_lint_clean(rng):
    """lint-clean parent and child, every child input attached, child outputs feeding multi-input gates of the parent (a lint-clean
    parent has no undriven buffer to drive): the result must pass lint (C20's clause for this producer); then sometimes a fill"""
    p = gen_parent(rng, holes=0)
    if rng.random() < 0.5:
        p = lib.add_flop(rng, p, inst="pf", clk="pclk")
    child = gen_child(rng, flop=rng.random() < 0.3, clean_io=rng.random() < 0.7)
    ins = [n[0] for n in child["nodes"] if n[1] == "input"]
    outs = [n[0] for n in child["nodes"] if n[2] and n[1] != "input"]
    spec = [[o, [sel(rng, "gate")], rng.random() < 0.5] for o in outs if rng.random() < 0.5]
    spec += [[i, [sel(rng, "anyd")], rng.random() < 0.5] for i in ins]
    ops = [{"op": "sub", "sc": child, "name": "u0", "conns": spec, "strip": True}]
    if p["bbs"] and rng.random() < 0.6:
        ops.append({"op": "fill", "inst": "pf", "sc": flop_body(rng)})
    if child["bbs"] and rng.random() < 0.6:
        ops.append({"op": "fill", "inst": "u0_ff0", "sc": flop_body(rng)})
    return {"parent": p, "ops": ops, "kind": "lint-clean"}


def scen_reject(rng):
    """the rejection stream: each history contains at least one call that must raise ValueError"""
    p = gen_parent(rng)
    child = gen_child(rng, flop=rng.random() < 0.4, clean_io=True)
    kind = rng.choice(["node_clash", "bb_clash", "bad_key", "two_nets", "driven_target", "input_target", "dup_inst", "io_mismatch",
                       "no_inst", "fill_clash", "gate_target", "same_name_twice", "pin_retyped", "output_is_pin"])
    ops = []
    cn = [n[0] for n in child["nodes"]]
    ins = [n[0] for n in child["nodes"] if n[1] == "input"]
    outs = [n[0] for n in child["nodes"] if n[2]]
    if kind == "node_clash":
        p["nodes"].append([f"u0_{rng.choice(cn)}", "buf", True, [p["nodes"][0][0]]])
        ops.append({"op": "sub", "sc": child, "name": "u0", "conns": conn_spec(rng, child), "strip": True})
    elif kind == "bb_clash":
        child = gen_child(rng, flop=True, clean_io=True)
        p["bbs"] = p.get("bbs", []) + [["u0_ff0", "ff", ["clk", "d"], ["q"]]]
        p["nodes"] += [["u0_ff0.x", "bb_output", False, []]]
        ops.append({"op": "sub", "sc": child, "name": "u0", "conns": [], "strip": True})
    elif kind == "bad_key":
        spec = conn_spec(rng, child) + [[rng.choice(["nope", cn[-1] + "_"] + [n[0] for n in child["nodes"] if n[1] != "input" and not n[2]][:1]), [sel(rng)], False]]
        ops.append({"op": "sub", "sc": child, "name": "u0", "conns": spec, "strip": True})
    elif kind == "two_nets":
        ops.append({"op": "sub", "sc": child, "name": "u0", "conns": [[ins[0], [sel(rng), sel(rng)], False]], "strip": True})
    elif kind == "driven_target":
        ops.append({"op": "sub", "sc": child, "name": "u0", "conns": [[outs[0], [sel(rng, "drivenbuf")], False]], "strip": True})
    elif kind == "input_target":
        ops.append({"op": "sub", "sc": child, "name": "u0", "conns": [[outs[0], [sel(rng, "input")], False]], "strip": True})
    elif kind == "gate_target":        # accepted by the API, outside "outputs driving buffers": the old function of the gate is not kept
        ops.append({"op": "sub", "sc": child, "name": "u0", "conns": [[outs[0], [sel(rng, "gate")], False]], "strip": True})
    elif kind == "same_name_twice":
        ops.append({"op": "sub", "sc": child, "name": "u0", "conns": conn_spec(rng, child), "strip": True})
        ops.append({"op": "sub", "sc": child, "name": "u0", "conns": [], "strip": True})
    elif kind == "dup_inst":
        ops.append({"op": "bb", "bb": bb_of(child), "inst": "b0", "conns": conn_spec(rng, child, bb=True)})
        ops.append({"op": "bb", "bb": bb_of(child), "inst": "b0", "conns": []})
    elif kind == "io_mismatch":
        other = gen_child(rng, clean_io=True, prefix="zz")
        ops.append({"op": "bb", "bb": bb_of(child), "inst": "b0", "conns": conn_spec(rng, child, bb=True)})
        ops.append({"op": "fill", "inst": "b0", "sc": other})
        ops.append({"op": "fill", "inst": "b0", "sc": child})
    elif kind == "pin_retyped":
        # the registry still lists b0, but one of its pin nodes was removed and its name reused for an ordinary node
        ops.append({"op": "bb", "bb": bb_of(child), "inst": "b0", "conns": []})
        ops.append({"op": "retype_pin", "inst": "b0", "pin": rng.choice(ins + outs)})
        ops.append({"op": "fill", "inst": "b0", "sc": child})
    elif kind == "output_is_pin":
        child = gen_child(rng, flop=True, clean_io=True)
        for n in child["nodes"]:
            if n[0] == "ff0.q":
                n[2] = True
        ops.append({"op": "bb", "bb": bb_of(child), "inst": "b0", "conns": []})
        ops.append({"op": "fill", "inst": "b0", "sc": child})
    elif kind == "no_inst":
        ops.append({"op": "fill", "inst": "b7", "sc": child})
    elif kind == "fill_clash":
        p["nodes"].append([f"b0_{rng.choice(cn)}", "buf", True, [p["nodes"][0][0]]])
        ops.append({"op": "bb", "bb": bb_of(child), "inst": "b0", "conns": conn_spec(rng, child, bb=True)})
        ops.append({"op": "fill", "inst": "b0", "sc": child})
    return {"parent": p, "ops": ops, "kind": "reject:" + kind}


def generate(rng, tier):
    n = 80 if tier == "quick" else 700
    out = []
    for _ in range(n):
        r = rng.random()
        out.append(scen_sub(rng) if r < 0.17 else scen_lint_clean(rng) if r < 0.23 else scen_shared_args(rng) if r < 0.30 else scen_sub_two_bbs(rng) if r < 0.36 else
                   scen_fill(rng) if r < 0.48 else
                   scen_fill_order(rng) if r < 0.64 else scen_strip(rng) if r < 0.74 else
                   scen_strip_suffix(rng) if r < 0.84 else scen_reject(rng))
    return out


WIDEN = 1                  # widened search: one more generated batch + the budgeted neighbourhood below
_MUTATE_BUDGET = [40]


def mutate_case(rng, case):
    """The framework asks for 40 neighbours per disagreeing (case, hash seed); a change that makes most cases disagree would
    multiply the run time, so only 40 real neighbours (same scenario kind) are produced, the rest are skip markers."""
    if _MUTATE_BUDGET[0] <= 0:
        return {"kind": "skip", "parent": {"name": "top", "nodes": [], "bbs": []}, "ops": []}
    _MUTATE_BUDGET[0] -= 1
    k = case.get("kind", "sub").split(":")[0]
    return {"sub": scen_sub, "fill": scen_fill, "strip": scen_strip, "strip-collide": scen_strip, "strip-suffix": scen_strip_suffix,
            "fill-order": scen_fill_order, "sub-two-bbs": scen_sub_two_bbs, "shared-args": scen_shared_args, "lint-clean": scen_lint_clean, "reject": scen_reject}.get(k, scen_sub)(rng)


# ---------------------------------------------------------------- implementation driver
def _resolve(c, spec, dotted_ok=True):
    """turn the symbolic connection map into concrete nets of the live circuit (deterministic)"""
    import networkx as nx
    g = c.graph
    ty = lambda n: g.nodes[n].get("type")
    conns, used, forbidden, taken = [], set(), set(), set()
    out_first = sorted(range(len(spec)), key=lambda i: 0 if any(s["sel"] not in ("any", "anyd") for s in spec[i][1]) else 1)
    resolved = {}
    for i in out_first:
        key, sels, as_list = spec[i]
        nets = []
        for s in sels:
            if s["sel"] == "freebuf":
                cand = sorted(n for n in g if ty(n) == "buf" and g.in_degree(n) == 0 and n not in used)
            elif s["sel"] == "drivenbuf":
                cand = sorted(n for n in g if ty(n) in ("buf", "not") and g.in_degree(n) == 1)
            elif s["sel"] == "input":
                cand = sorted(n for n in g if ty(n) in ("input", "0", "1"))
            elif s["sel"] == "gate":
                cand = sorted(n for n in g if ty(n) in ("and", "or", "xor", "nand", "nor", "xnor"))
            else:
                cand = sorted(n for n in g if ty(n) != "bb_input" and n not in forbidden and not (ty(n) == "bb_output" and g.out_degree(n) > 0))
                if s["sel"] == "anyd" and [n for n in cand if n not in taken]:
                    cand = [n for n in cand if n not in taken]
            if not cand:
                continue
            n = cand[s["k"] % len(cand)]
            nets.append(n)
            taken.add(n)
            if s["sel"] not in ("any", "anyd"):
                used.add(n)
                forbidden |= {n} | nx.descendants(g, n)
        if nets:
            resolved[i] = (key, nets if (as_list or len(nets) != 1) else nets[0])
    return [resolved[i] for i in range(len(spec)) if i in resolved]


def _norm(conns):
    return [[k, [v] if isinstance(v, str) else list(v)] for k, v in conns]


def impl(case):
    import circuitgraph as cg
    c = lib.build_circuit(case["parent"])
    steps = []
    shared = {}
    for op in case["ops"]:
        st = {"op": op["op"], "pre": lib.dump_circuit(c)}
        exc = None
        try:
            if op["op"] == "sub":
                if op.get("reuse") and shared.get("sub"):
                    sc, cd = shared["sub"]                 # the SAME child and the SAME dict object as in the previous call
                else:
                    sc = lib.build_circuit(op["sc"])
                    conns = _resolve(c, op["conns"])
                    cd = dict(conns) if conns or op.get("empty_dict") else None
                    shared["sub"] = (sc, cd)
                st.update(sc=lib.dump_circuit(sc), name=op["name"], conns=_norm(cd.items()) if cd else [], strip=op["strip"])
                st["conns_after"] = st["conns"]
                try:
                    c.add_subcircuit(sc, op["name"], cd, strip_io=op["strip"])
                finally:
                    st["conns_after"] = _norm(cd.items()) if cd else []
            elif op["op"] == "bb":
                if op.get("reuse") and shared.get("bb"):
                    bb, cd = shared["bb"]                  # the SAME BlackBox object and the SAME dict object
                else:
                    bn, ins, outs = op["bb"]
                    bb = cg.BlackBox(bn, ins, outs)
                    conns = _resolve(c, op["conns"])
                    cd = dict(conns) if conns else None
                    shared["bb"] = (bb, cd)
                bbd = lambda: [bb.name, sorted(bb.inputs()), sorted(bb.outputs())]
                st.update(bb=bbd(), inst=op["inst"], conns=_norm(cd.items()) if cd else [], ins=list(bb.inputs()), outs=list(bb.outputs()))
                st["conns_after"], st["bb_after"] = st["conns"], st["bb"]
                try:
                    c.add_blackbox(bb, op["inst"], cd)
                finally:
                    st["conns_after"], st["bb_after"] = (_norm(cd.items()) if cd else []), bbd()
            elif op["op"] == "fill":
                sc = lib.build_circuit(op["sc"])
                st.update(inst=op["inst"], sc=op["sc"])
                c.fill_blackbox(op["inst"], sc)
            elif op["op"] == "retype_pin":       # set-up step, not an observation: remove the pin node and reuse its name
                n = f"{op['inst']}.{op['pin']}"
                if n in c.graph:
                    c.graph.remove_node(n)
                    c.graph.add_node(n, type="buf", output=False)
                continue
            elif op["op"] == "strip":
                ign = op["ign"]
                st["ign"] = [] if not ign else [ign] if isinstance(ign, str) else list(ign)
                before = lib.dump_circuit(c)
                r = cg.tx.strip_blackboxes(c, ign)
                st["res"] = lib.dump_circuit(r)
                if lib.dump_circuit(c) != before:
                    st["mutated_argument"] = True
        except Exception as e:  # noqa: BLE001 - the class is the observation
            exc = type(e).__name__
        st["exc"] = exc
        st["post"] = lib.dump_circuit(c)
        steps.append(st)
    return {"steps": steps}


# ---------------------------------------------------------------- Coq printing
EXN = {"ValueError", "KeyError", "IndexError", "NotImplementedError", "StopIteration"}


def cexn(e):
    return e if e in EXN else "OtherError"


def coutcome(e):
    return "Done" if e is None else f"(Fail {cexn(e)})"


def cconns(conns):
    return cl("(%s,%s)" % (cs(k), csl(v)) for k, v in conns)


def cstep(st):
    op = st["op"]
    if op == "sub":
        return "SSub %s %s %s %s %s %s %s %s" % (ccirc(st["pre"]), ccirc(st["sc"]), cs(st["name"]), cconns(st["conns"]), cb(st["strip"]),
                                                ccirc(st["post"]), coutcome(st["exc"]), cconns(st["conns_after"]))
    if op == "bb":
        bn, ins, outs = st["bb"]
        bn2, ins2, outs2 = st["bb_after"]
        return "SBb %s (mk_bb %s %s %s) %s %s %s %s %s %s (mk_bb %s %s %s) %s" % (
            ccirc(st["pre"]), cs(bn), csl(ins), csl(outs), cs(st["inst"]), csl(st["ins"]), csl(st["outs"]), cconns(st["conns"]),
            ccirc(st["post"]), coutcome(st["exc"]), cs(bn2), csl(ins2), csl(outs2), cconns(st["conns_after"]))
    if op == "fill":
        return "SFill %s %s %s %s %s" % (ccirc(st["pre"]), cs(st["inst"]), ccirc(st["sc"]), ccirc(st["post"]), coutcome(st["exc"]))
    res = "(Ok %s)" % ccirc(st["res"]) if st["exc"] is None else "(Raise %s)" % cexn(st["exc"])
    return "SStrip %s %s %s" % (ccirc(st["pre"]), csl(st["ign"]), res)


def to_coq(case, obs):
    steps = [s for s in obs["steps"] if "name" in s or "inst" in s or "ign" in s]
    if not steps or any(len(lib.free_of(s.get("res") or s["post"])) > MAX_FREE for s in steps):
        return None
    return "CHist " + cl(cstep(s) for s in steps)


def nontrivial(case, obs):
    for s in obs["steps"]:
        if s["exc"] is None and (s["op"] in ("fill", "strip") or s.get("conns")) and len(s["post"]["nodes"]) >= 4:
            return True
    return False


def classify(case, obs):
    out = ["scenario:" + case["kind"].split(":")[0]]
    if any(len(lib.free_of(s.get("res") or s["post"])) > MAX_FREE for s in obs["steps"]):
        out.append("skipped:more-than-%d-free-nodes" % MAX_FREE)
    if case["kind"].startswith("reject:"):
        out.append(case["kind"])
    for s in obs["steps"]:
        out.append(f"{s['op']}:{s['exc'] or 'ok'}")
        if s["op"] == "sub" and s["exc"] is None:
            out.append("sub:conns=%d" % min(3, len(s.get("conns", []))))
            if s["sc"]["bbs"]:
                out.append("sub:nested-blackbox")
            if not s["strip"]:
                out.append("sub:strip_io=False")
        if s["op"] == "strip" and s["exc"] is None and s["ign"]:
            out.append("strip:ignore_pins")
        if s.get("mutated_argument"):
            out.append("strip:mutated-argument")
    n_sub = sum(1 for s in obs["steps"] if s["op"] == "sub" and s["exc"] is None)
    if n_sub >= 2:
        out.append("repeated-instantiation")
    n_fill = sum(1 for s in obs["steps"] if s["op"] == "fill" and s["exc"] is None)
    if n_fill >= 2:
        out.append("fill:two-or-more")
    return out


def finding_signature(case, obs):
    return None


CLAIMED = True
LEVEL_TEXT = ("Theorems over the API model, for every accepted call: add_subcircuit (any connection map), add_blackbox, fill_blackbox and "
              "strip_blackboxes (any ignore_pins) leave the parent's inputs/outputs as specified, edit the registry as specified (child "
              "blackboxes under prefixed names, the filled one removed, none after strip), and a valuation is consistent for the result iff "
              "it is consistent for the parent (every pre-existing node keeps its equation), its pull-back along name_ is consistent for "
              "strip_io(child), and every attached pair of nets is equal (side conditions: child outputs drive undriven buffers; "
              "instances well-formed as add_blackbox creates them); strip_io=False has its own theorem; composition of lint-clean circuits is "
              "lint-clean (dot-free instance name, every child input attached). The model is tied to circuit.py / tx.py by per-step correspondence; "
              "every clause is also decided on each recorded result by an exhaustive sweep whose completeness is proved.")
LEVEL_NOTE = ("Trusted: Coq kernel + vm_compute, std++, the hand-written API model (tied to circuit.py by the per-step correspondence "
              "of this check and of C07), Gen_types translator shapes, harness canonicalisation. Cyclic results are judged structurally only; "
              "histories whose result has more than 9 free nodes are generated but not evaluated.")
TECHNIQUE = "Coq proof (composition lemmas over the API model) + vm_compute correspondence and exhaustive-valuation oracle per recorded step"
