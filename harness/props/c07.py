"""C07: the construction API never leaves an illegally wired circuit."""
import json

import lib
from lib import cs, cb, csl, cl, cty, ccirc
from props import c07_util as U

ID = "C07"
RUN_MODULE = "Run.Run_C07"
GEN_FILES = ["Gen_types.v", "Gen_api.v"]
RULE = ("random histories (<= 25 calls quick, <= 150 thorough) of add (default flags / uid=True), connect, disconnect, remove, "
        "set_output, add_blackbox, add_subcircuit, fill_blackbox over the names a..g plus '', '1x', dotted and pin names, all 14 "
        "types plus an unknown one; ~60 % of the calls built to be legal in a shadow state, ~25 % with arbitrary arguments, ~15 % "
        "targeted illegal (duplicate, self-reference, missing node, second driver, wire into an input, wire out of a blackbox "
        "input ...); start = empty circuit or a generated lint-clean circuit (rand_dag, add_flop); the full state is recorded after "
        "every call; non-trivial = at least 4 calls of which one succeeded and one was rejected; distinct = hash of the history")
EXPLANATION = ("state machine `step` proved to preserve the wiring invariant; model tied to Circuit by state equality after every "
               "call of generated histories; invariant, no-new-edge-on-reject, exception class and add-preserves-nodes decided by "
               "Coq on the recorded implementation states")
SHARD = 24
HASHSEEDS = {"quick": [0, 1], "thorough": [0, 1, 2]}

NAMES = ["a", "b", "c", "d", "e", "g"]
ODD = ["", "1x", "a.b", "f0.d", "f0.q", "f0.clk", "u1.y", "u1.a", "zz", "9", "s_a", "f0_d", "a_0"]
TYPES = lib.GATES + ["0", "1", "x", "input", "bb_input", "bb_output"]
INSTS = ["f0", "u1", "u2"]
BBDEFS = [("ff", ["d", "clk"], ["q"]), ("inv", ["a"], ["y"]), ("src", [], ["q"]), ("snk", ["d"], []), ("two", ["a", "b"], ["y", "z"])]
SUBNAMES = ["s", "t", "f0", "a"]
SHORT = lambda i: "abcdefghijklmnopqrstuvwxyz"[i % 26]


# ---------------------------------------------------------------- generator
def pick(rng, xs, k):
    xs = list(xs)
    rng.shuffle(xs)
    return xs[:k]


def drivers(sh, load_type=None):
    """nodes that may legally drive one more load (of the given type)"""
    out = []
    for n, (t, o, fi) in sh.n.items():
        if t == "bb_input":
            continue
        if t == "bb_output" and (load_type != "buf" or sh.fanout(n)):
            continue
        out.append(n)
    return sorted(out)


def sinks(sh):
    """nodes that accept one more driver"""
    return sorted(n for n, (t, o, fi) in sh.n.items() if t in lib.MULTI or (t in U.SINGLE and not fi))


def small_sub(rng, with_bb=False):
    d = lib.rand_dag(rng, rng.randint(1, 2), rng.randint(1, 3), max_fanin=2, p_const=0.2, names=SHORT)
    if with_bb:
        d = lib.add_flop(rng, d, inst="r0", unconnected=rng.random() < 0.3)
    d["name"] = "sc"
    return d


def fill_sub(rng, ins, outs, exact=True):
    """a circuit whose input set is `ins` and whose output set is `outs`"""
    nodes = [[p, "input", p in outs, []] for p in ins]
    srcs = list(ins)
    if not srcs:
        nodes.append(["k0", rng.choice(["0", "1"]), False, []])
        srcs = ["k0"]
    if rng.random() < 0.5:
        t = rng.choice(lib.GATES)
        nodes.append(["m", t, False, pick(rng, srcs, 1 if t in lib.SINGLE else min(2, len(srcs)))])
        srcs.append("m")
    for q in outs:
        if q in ins:
            continue
        t = rng.choice(lib.GATES)
        nodes.append([q, t, True, sorted(pick(rng, srcs, 1 if t in lib.SINGLE else rng.randint(1, min(2, len(srcs)))))])
    d = {"name": "sc", "nodes": nodes, "bbs": []}
    if not exact:
        r = rng.random()
        if r < 0.4:
            nodes.append(["extra", "input", False, []])
        elif r < 0.7 and nodes:
            nodes[-1][2] = not nodes[-1][2]
        else:
            d = small_sub(rng)
    elif rng.random() < 0.15:
        d = lib.add_flop(rng, d, inst="r0", on=rng.choice(srcs), clk=srcs[0])
        d["name"] = "sc"
    return d


def gen_valid(rng, sh):
    kind = rng.choices(["add", "connect", "disconnect", "remove", "set_output", "add_blackbox", "add_subcircuit", "fill_blackbox"],
                       [30, 16, 7, 7, 7, 12, 10, 11])[0]
    if kind == "fill_blackbox" and not sh.bb:
        kind = "add_blackbox"
    if kind in ("connect", "disconnect", "remove", "set_output") and not sh.n:
        kind = "add"
    if kind == "add":
        uid = rng.random() < 0.25
        free = [n for n in NAMES if n not in sh.n]
        n = rng.choice(NAMES + ["a.b", "f0.d", "u1.y"]) if uid or not free else rng.choice(free)
        if not uid and n in sh.n:
            uid = True
        t = rng.choice(TYPES if rng.random() < 0.5 else lib.GATES)
        fi = []
        if t in lib.MULTI:
            fi = pick(rng, drivers(sh, t), rng.randint(0, 3))
        elif t in ("buf", "not", "bb_input"):
            fi = pick(rng, drivers(sh, t), rng.randint(0, 1))
        fo = []
        if t != "bb_input" and rng.random() < 0.45:
            cand = sinks(sh)
            if t == "bb_output":
                cand = [v for v in cand if sh.n[v][0] == "buf"]
                fo = pick(rng, cand, 1)
            else:
                fo = pick(rng, cand, rng.randint(1, 2))
        fi2 = fi[0] if len(fi) == 1 and rng.random() < 0.3 else (None if not fi and rng.random() < 0.5 else fi)
        fo2 = fo[0] if len(fo) == 1 and rng.random() < 0.3 else (None if not fo and rng.random() < 0.5 else fo)
        return ["add", n, t, fi2, fo2, rng.random() < 0.3, uid]
    if kind == "connect":
        vs = pick(rng, sinks(sh), 1)
        if not vs:
            return ["connect", [], pick(rng, sh.n, 1)]
        vt = sh.n[vs[0]][0]
        k = 1 if vt in U.SINGLE else rng.randint(1, 2)
        us = pick(rng, drivers(sh, vt), k)
        if k == 1 and len(us) == 1 and rng.random() < 0.4:
            more = [v for v in sinks(sh) if v != vs[0] and sh.n[us[0]][0] != "bb_output"]
            vs += pick(rng, more, 1)
        return ["connect", us[0] if len(us) == 1 and rng.random() < 0.4 else us, vs[0] if len(vs) == 1 and rng.random() < 0.4 else vs]
    if kind == "disconnect":
        es = sorted((f, n) for n, v in sh.n.items() for f in v[2])
        if es and rng.random() < 0.8:
            f, n = rng.choice(es)
            return ["disconnect", rng.choice([f, [f]]), rng.choice([n, [n], [n] + pick(rng, sh.n, 1)])]
        return ["disconnect", pick(rng, sh.n, 1), pick(rng, sh.n, 2)]
    if kind == "remove":
        ns = pick(rng, sh.n, rng.choice([1, 1, 2]))
        return ["remove", ns[0] if len(ns) == 1 and rng.random() < 0.5 else ns]
    if kind == "set_output":
        ns = pick(rng, sh.n, rng.choice([1, 1, 2]))
        return ["set_output", ns[0] if len(ns) == 1 and rng.random() < 0.5 else ns, rng.random() < 0.7]
    if kind == "add_blackbox":
        free = [i for i in INSTS if i not in sh.bb] or INSTS
        inst = rng.choice(free)
        bn, ins, outs = rng.choice(BBDEFS)
        if sh.bb and rng.random() < 0.5:
            bn, ins, outs = sh.bb[rng.choice(sorted(sh.bb))]      # a second instance of a definition already in use (one shared object)
            ins, outs = list(ins), list(outs)
        conns = []
        used_bufs = set()
        for p in pick(rng, ins, rng.randint(0, len(ins))):
            dr = pick(rng, drivers(sh, "bb_input"), 1)
            if dr:
                conns.append([p, rng.choice([dr, dr[0]])])
        for p in pick(rng, outs, rng.randint(0, len(outs))):
            bufs = [v for v in sinks(sh) if sh.n[v][0] == "buf" and v not in used_bufs]
            if bufs:
                b = rng.choice(bufs)
                used_bufs.add(b)
                conns.append([p, rng.choice([[b], b])])
        rng.shuffle(conns)
        return ["add_blackbox", bn, ins, outs, inst, conns if conns or rng.random() < 0.5 else None]
    if kind == "add_subcircuit":
        sc = small_sub(rng, with_bb=rng.random() < 0.25)
        free = [s for s in SUBNAMES if not any(k.startswith(s + "_") for k in sh.n)] or SUBNAMES
        name = rng.choice(free)
        conns = []
        sin = [x[0] for x in sc["nodes"] if x[1] == "input"]
        sout = [x[0] for x in sc["nodes"] if x[2] and x[1] not in ("input", "bb_input")]
        for p in pick(rng, sin, rng.randint(0, len(sin))):
            dr = pick(rng, drivers(sh, "buf"), 1)
            if dr:
                conns.append([p, dr])
        for p in pick(rng, sout, rng.randint(0, 1)):
            sk = pick(rng, [v for v in sinks(sh) if sh.n[v][0] in lib.MULTI], rng.randint(1, 2))
            if sk:
                conns.append([p, sk])
        return ["add_subcircuit", sc, name, conns if conns or rng.random() < 0.5 else None]
    inst = rng.choice(sorted(sh.bb))
    _, ins, outs = sh.bb[inst]
    return ["fill_blackbox", inst, fill_sub(rng, ins, outs)]


def any_name(rng, sh):
    r = rng.random()
    if r < 0.45 and sh.n:
        return rng.choice(sorted(sh.n))
    if r < 0.75:
        return rng.choice(NAMES)
    return rng.choice(ODD)


def any_list(rng, sh, lo=0, hi=3, none_ok=True):
    xs = [any_name(rng, sh) for _ in range(rng.randint(lo, hi))]
    if xs and rng.random() < 0.15:
        xs.append(xs[0])            # duplicate
    if len(xs) == 1 and rng.random() < 0.3:
        return xs[0]
    if not xs and rng.random() < 0.3:
        return rng.choice([None, ""]) if none_ok else ""
    return xs


def gen_wild(rng, sh):
    kind = rng.choices(["add", "connect", "disconnect", "remove", "set_output", "add_blackbox", "add_subcircuit", "fill_blackbox"],
                       [30, 20, 6, 8, 8, 10, 8, 10])[0]
    if kind == "add":
        return ["add", any_name(rng, sh), rng.choice(TYPES + ["foo"]), any_list(rng, sh, 0, 2), any_list(rng, sh, 0, 2),
                rng.random() < 0.3, rng.random() < 0.3]
    if kind in ("connect", "disconnect"):
        return [kind, any_list(rng, sh, 0, 2, kind == "connect"), any_list(rng, sh, 0, 2, kind == "connect")]
    if kind == "remove":
        return ["remove", any_list(rng, sh, 0, 2, False)]
    if kind == "set_output":
        return ["set_output", any_list(rng, sh, 0, 2, False), rng.random() < 0.6]
    if kind == "add_blackbox":
        bn, ins, outs = rng.choice(BBDEFS + [("odd", ["d", "d2"], ["d"]), ("dot", ["p.x"], ["q"])])
        keys = pick(rng, ins + outs + ["nokey"], rng.randint(0, 2))
        return ["add_blackbox", bn, ins, outs, rng.choice(INSTS + ["0ff", "", "a", "f0.d"]), [[k, any_list(rng, sh, 0, 2)] for k in keys]]
    if kind == "add_subcircuit":
        sc = small_sub(rng, with_bb=rng.random() < 0.3)
        keys = pick(rng, [x[0] for x in sc["nodes"]] + ["nokey"], rng.randint(0, 2))
        return ["add_subcircuit", sc, rng.choice(SUBNAMES + ["", "1"]), [[k, any_list(rng, sh, 0, 2)] for k in keys]]
    inst = rng.choice(sorted(sh.bb) + INSTS)
    if inst in sh.bb and rng.random() < 0.7:
        _, ins, outs = sh.bb[inst]
        return ["fill_blackbox", inst, fill_sub(rng, ins, outs, exact=rng.random() < 0.6)]
    bn, ins, outs = rng.choice(BBDEFS)
    return ["fill_blackbox", inst, fill_sub(rng, ins, outs)]


def gen_mixed(rng, sh):
    """multi-source / multi-target connect and add(fanin=[...], fanout=[...]) whose lists mix ordinary nodes and blackbox pins
    in both orders (seeded C07-s8: a per-source check that stops at the first ordinary source)"""
    names = sorted(sh.n)
    pins = [n for n in names if sh.n[n][0] in ("bb_input", "bb_output")]
    plain = [n for n in names if sh.n[n][0] not in ("bb_input", "bb_output")]
    if not pins or not plain:
        return None
    multi = [n for n in plain if sh.n[n][0] in lib.MULTI]
    bufs = [n for n in plain if sh.n[n][0] == "buf" and not sh.n[n][2]]
    srcs = pick(rng, plain, rng.randint(1, 2)) + pick(rng, pins, rng.randint(1, 2))
    rng.shuffle(srcs)
    if rng.random() < 0.5:
        srcs.sort(key=lambda x: x in pins)           # ordinary nodes first: the order that a stopped loop lets through
    tgts = pick(rng, multi, rng.randint(0, 2)) + pick(rng, bufs, rng.randint(0, 1)) + pick(rng, pins, rng.randint(0, 1))
    rng.shuffle(tgts)
    k = rng.random()
    free = [n for n in NAMES if n not in sh.n] or ["h"]
    if k < 0.4 or not tgts:
        return ["add", rng.choice(free), rng.choice(lib.MULTI), srcs, pick(rng, multi + bufs, rng.randint(0, 1)) or None, False, rng.random() < 0.2]
    if k < 0.8:
        return ["connect", srcs, tgts]
    return ["add", rng.choice(free), rng.choice(lib.MULTI + ["buf"]), pick(rng, plain, 1), tgts, False, False]


def gen_illegal(rng, sh):
    """targeted illegal calls (each is rejected by one particular check, most after a partial effect)"""
    names = sorted(sh.n)
    by = lambda ts: [n for n in names if sh.n[n][0] in ts]
    fresh = [n for n in NAMES if n not in sh.n] or ["h"]
    n = rng.choice(fresh)
    r = rng.randint(0, 20)
    if r >= 16:
        op = gen_mixed(rng, sh)
        if op:
            return op
        r = rng.randint(0, 15)
    if r == 0 and names:
        return ["add", rng.choice(names), rng.choice(TYPES), None, None, False, False]            # duplicate
    if r == 1:
        return ["add", n, rng.choice(lib.MULTI), [rng.choice(["zz", "nope", ""])], pick(rng, sinks(sh), 1), False, rng.random() < 0.3]   # edges to fanout, then rejected fanin
    if r == 2:
        return ["add", n, rng.choice(["buf", "not"]), [n], [n], False, False]                       # self loop twice
    if r == 3 and names:
        return ["add", n, rng.choice(["input", "0", "1", "x", "bb_output"]), pick(rng, names, 1), pick(rng, sinks(sh), 1), False, False]
    if r == 4 and len(names) >= 2:
        return ["add", n, rng.choice(["buf", "not"]), pick(rng, names, 2), None, False, False]
    if r == 5 and by(U.NOFI):
        return ["connect", pick(rng, names, 1), pick(rng, by(U.NOFI), 1)]
    if r == 6 and by(["bb_input"]):
        return ["connect", pick(rng, by(["bb_input"]), 1), pick(rng, names, 1)]
    if r == 7 and by(["bb_output"]):
        return rng.choice([["connect", pick(rng, by(["bb_output"]), 1), pick(rng, names, 2)],
                           ["add", n, rng.choice(TYPES), pick(rng, by(["bb_output"]), 1), None, False, False]])
    if r == 8:
        drv = [v for v in by(U.SINGLE) if sh.n[v][2]]
        if drv:
            return ["connect", pick(rng, names, 1), pick(rng, drv, 1)]
    if r == 9:
        return ["add", rng.choice(["", "1x", "9", "0ff.d"]), rng.choice(TYPES), None, pick(rng, sinks(sh), 1), False, rng.random() < 0.5]
    if r == 10:
        return ["add", n, "foo", None, None, False, rng.random() < 0.5]
    if r == 11 and sh.bb:
        bn, ins, outs = rng.choice(BBDEFS)
        return ["add_blackbox", bn, ins, outs, rng.choice(sorted(sh.bb)), None]
    if r == 12:
        # pin name already taken / instance name starting with a digit / a connection rejected after pins exist
        bn, ins, outs = rng.choice(BBDEFS[:2])
        inst = rng.choice([i for i in INSTS if i not in sh.bb] or ["u3"])
        bad = rng.choice([[ins[0], ["zz"]], [outs[0], pick(rng, by(U.NOFI) or ["zz"], 1)], ["nokey", []], [ins[0], pick(rng, names, 2) if len(names) > 1 else ["zz"]]])
        good = [[p, pick(rng, drivers(sh, "bb_input"), 1)] for p in ins[1:]]
        return ["add_blackbox", bn, ins, outs, rng.choice([inst, inst, "0ff"]), good + [bad]]
    if r == 13:
        sc = small_sub(rng, with_bb=rng.random() < 0.3)
        sin = [x[0] for x in sc["nodes"] if x[1] == "input"]
        sout = [x[0] for x in sc["nodes"] if x[2]]
        bad = rng.choice([[sin[0], ["zz"]], [sin[0], pick(rng, names, 2) if len(names) > 1 else ["zz"]], [sout[0], pick(rng, by(U.NOFI) or ["zz"], 1)]])
        good = [[p, pick(rng, drivers(sh, "buf"), 1)] for p in sin[1:]]
        return ["add_subcircuit", sc, rng.choice([s for s in SUBNAMES if not any(k.startswith(s + "_") for k in sh.n)] or ["w"]), good + [bad]]
    if r == 14 and sh.bb:
        # caller removes a pin and re-creates the name with another type, then fills
        inst = rng.choice(sorted(sh.bb))
        _, ins, outs = sh.bb[inst]
        if ins + outs:
            p = rng.choice(ins + outs)
            return ["remove", f"{inst}.{p}"]
    if r == 15 and sh.bb:
        inst = rng.choice(sorted(sh.bb))
        _, ins, outs = sh.bb[inst]
        if ins + outs:
            p = rng.choice(ins + outs)
            t = rng.choice(["and", "buf", "input", "bb_output", "bb_input"])
            return ["add", f"{inst}.{p}", t, pick(rng, drivers(sh, t), 2 if t == "and" else 0), None, False, False]
    return gen_wild(rng, sh)


def gen_stale_pin(rng, sh):
    """recipe family (C07-F5, seeded C07-s6): the caller removes a pin of a recorded instance, re-creates the name -- with the
    OPPOSITE pin type or another type, with or without a driver / load -- and then fills the instance"""
    inst = rng.choice(sorted(sh.bb))
    _, ins, outs = sh.bb[inst]
    if not ins + outs:
        return []
    p = rng.choice(outs if outs and rng.random() < 0.6 else ins + outs)
    pn = f"{inst}.{p}"
    was_out = p in outs and not (p in ins and rng.random() < 0.5)
    t = rng.choice(["bb_input" if was_out else "bb_output"] * 3 + ["buf", "and", "input", "not"])
    others = [n for n in drivers(sh, t) if n != pn]
    fi, fo = None, None
    if t in ("bb_input", "buf", "not") and others and rng.random() < 0.7:
        fi = pick(rng, others, 1)
    elif t == "and" and others:
        fi = pick(rng, others, 2)
    if t == "bb_output" and rng.random() < 0.7:
        fo = pick(rng, [v for v in sinks(sh) if sh.n[v][0] == "buf" and v != pn], 1) or None
    elif t in ("buf", "and", "not", "input") and rng.random() < 0.4:
        fo = pick(rng, [v for v in sinks(sh) if v != pn], 1) or None
    return [["remove", rng.choice([pn, [pn]])], ["add", pn, t, fi, fo, False, False], ["fill_blackbox", inst, fill_sub(rng, ins, outs)]]


def gen_history(rng, length, start=None):
    sh = U.Sh(start)
    ops = []
    queue = []
    for _ in range(length):
        r = rng.random()
        if not queue and sh.bb and rng.random() < 0.05:
            queue = gen_stale_pin(rng, sh)
        if queue:
            op = queue.pop(0)
        else:
            op = gen_valid(rng, sh) if r < 0.6 else gen_wild(rng, sh) if r < 0.85 else gen_illegal(rng, sh)
        if op[0] == "add" and rng.random() < 0.22:
            # the flags the parsers use: missing neighbours are created / an existing node is redefined
            redef = rng.random() < 0.4
            n = op[1]
            if redef and sh.n and rng.random() < 0.7:
                n = rng.choice(sorted(sh.n))
            fi, fo = op[3], op[4]
            if rng.random() < 0.5:
                fi = (U.norm(fi, False) + [rng.choice(NAMES + ["zz", "1x", ""])])[:3]
            op = ["addx", n, op[2], fi, fo, op[5], rng.random() < 0.75, redef, op[6] and not redef]
        if op[0] in ("add_blackbox", "add_subcircuit") and op[-1]:
            op[-1] = [[k, v] for k, v in {k: v for k, v in op[-1]}.items()]     # a dict has each key once
        ops.append(op)
        sh.apply(op)
    return {"start": start, "ops": ops}


def gen_start(rng):
    d = lib.rand_dag(rng, rng.randint(1, 3), rng.randint(1, 4), max_fanin=3, p_const=0.3, consts=("0", "1", "x"), names=SHORT)
    if rng.random() < 0.5:
        d = lib.add_flop(rng, d, inst="f0", unconnected=rng.random() < 0.2)
    return d


def generate(rng, tier):
    out = []
    if tier == "quick":
        for i in range(150):
            out.append(gen_history(rng, rng.randint(6, 25), gen_start(rng) if i % 2 else None))
    else:
        # every 18th history is long; interleaved so that the case files (SHARD histories each) cost about the same
        for i in range(432):
            ln = rng.randint(100, 150) if i % 18 == 17 else rng.randint(10, 60)
            out.append(gen_history(rng, ln, gen_start(rng) if i % 2 else None))
    return out


# ---------------------------------------------------------------- implementation driver
def impl(case):
    import circuitgraph as cg
    first, steps = U.run_history(cg, lib, case["start"], case["ops"])
    ops = case["ops"]
    obs = {}
    ops2, steps2, shrunk = U.shrink(cg, lib, case["start"], ops, steps, first)
    if shrunk:
        obs["shrunk_ops"] = ops2            # 1-minimal history that still looks wrong; Coq judges this one
        obs["original_length"] = len(ops)
        steps = steps2
    obs["first"] = first
    obs["steps"] = steps
    return obs


# ---------------------------------------------------------------- Coq printing
def cconn(conns):
    return cl("(%s,%s)" % (cs(k), csl(U.norm(v))) for k, v in (conns or []))


def cop(op, st):
    k = op[0]
    if k == "add":
        return "A %s %s %s %s %s %s" % (cs(op[1]), cty(op[2]), csl(U.norm(op[3], False)), csl(U.norm(op[4], False)), cb(op[5]), cb(op[6]))
    if k == "addx":
        return "Ax %s %s %s %s %s %s %s %s" % (cs(op[1]), cty(op[2]), csl(U.norm(op[3], False)), csl(U.norm(op[4], False)), cb(op[5]),
                                               cb(op[6]), cb(op[7]), cb(op[8]))
    if k == "connect":
        return "Cn %s %s" % (csl(U.norm(op[1])), csl(U.norm(op[2])))
    if k == "disconnect":
        return "Dc %s %s" % (csl(U.norm(op[1], False)), csl(U.norm(op[2], False)))
    if k == "remove":
        return "Rm %s" % csl(U.norm(op[1], False))
    if k == "set_output":
        return "So %s %s" % (csl(U.norm(op[1], False)), cb(op[2]))
    if k == "add_blackbox":
        ins, outs = st.get("orders") or [op[2], op[3]]
        return "Ab %s %s %s %s %s" % (cs(op[1]), csl(ins), csl(outs), cs(op[4]), cconn(op[5]))
    if k == "add_subcircuit":
        return "As %s %s %s" % (ccirc(op[1]), cs(op[2]), cconn(op[3]))
    return "Fb %s %s" % (cs(op[1]), ccirc(op[2]))


EXN = ("ValueError", "KeyError", "IndexError", "StopIteration", "NotImplementedError")


def to_coq(case, obs):
    if not case["ops"]:
        return None
    ops = obs.get("shrunk_ops", case["ops"])
    items = []
    for op, st in zip(ops, obs["steps"]):
        r = "Ok %s" % cs(st["ret"] or "") if st["oc"] == "ok" else "Raise %s" % (st["oc"] if st["oc"] in EXN else "OtherError")
        s = "None" if st["state"] is None else "Some %s" % ccirc(st["state"])
        items.append("(%s,%s,%s)" % (cop(op, st), r, s))
    return "CHist %s %s" % (ccirc(obs["first"]), cl(items))


def nontrivial(case, obs):
    ocs = [s["oc"] for s in obs["steps"]]
    return len(ocs) >= 4 and "ok" in ocs and any(o != "ok" for o in ocs)


def classify(case, obs):
    ops = obs.get("shrunk_ops", case["ops"])
    out = ["start:" + ("generated" if case["start"] else "empty")]
    for op, st in zip(ops, obs["steps"]):
        tag = op[0] + ("(uid)" if op[0] == "add" and op[6] else "")
        if op[0] == "addx":
            tag = "add(" + ",".join(f for f, b in (("connected", op[6]), ("redef", op[7]), ("uid", op[8])) if b) + ")"
        out.append(f"{tag}:{st['oc']}")
    if "shrunk_ops" in obs:
        out.append("shrunk")
    return out


def finding_signature(case, obs):
    return None          # no open finding for C07 (C07-F1..F5 are fixed in /repo)


WIDEN = 1
_MUT_CALLS = [0]


def mutate_case(rng, case):
    """neighbourhood of a history on which model and implementation disagree: sub-histories and re-rolled tails.
    The framework asks for 40 neighbours of EVERY disagreeing history; after the first 320 requests the answer is an
    empty history (printed as no case), which bounds the widened search."""
    _MUT_CALLS[0] += 1
    if _MUT_CALLS[0] > 320:
        return {"start": None, "ops": []}
    ops = case["ops"][:30]
    r = rng.random()
    if r < 0.4 and len(ops) > 1:
        k = rng.randint(1, len(ops))
        keep = sorted(rng.sample(range(len(ops)), k))
        return {"start": case["start"], "ops": [ops[i] for i in keep]}
    if r < 0.7 and ops:
        k = rng.randint(0, len(ops))
        tail = gen_history(rng, rng.randint(1, 8), case["start"])["ops"]
        return {"start": case["start"], "ops": ops[:k] + tail}
    return gen_history(rng, rng.randint(4, 25), case["start"] if rng.random() < 0.5 else None)


CLAIMED = True
LEVEL_TEXT = ("Theorems (all states satisfying the invariant, all arguments, call succeeding or raising, all eight operations add (default "
              "flags or uid=True), connect, disconnect, remove, set_output, add_blackbox, add_subcircuit, fill_blackbox; a subcircuit "
              "argument itself legally wired): the wiring invariant and the pin clause are preserved, hence by every finite history "
              "from the empty circuit or any legal state (fill_blackbox pins: no pin of another instance is a pin node of the filled "
              "one, automatic for dot-free instance names); a rejected call changes no edge and not the registry and raises ValueError "
              "(KeyError for set_output on a missing node); add never changes an existing node, returns a free name, the uid loop ends "
              "on a free name. Beyond the property text: add_connected_nodes preserves the invariant, allow_redefinition only "
              "closedness and documented types (counterexamples for the other clauses).")
LEVEL_NOTE = ("Trusted: Coq kernel + vm_compute, std++, translators for the type lists of connect/add (Gen_types, proved equal to the "
              "documented lists) and for the order of tests, raises and mutations of 11 Circuit methods (Gen_api, proved equal to the "
              "order the model implements), harness canonicalisation and the recorded set orders. The hand-written state machine "
              "Base/Api.v is tied to circuitgraph.Circuit by equality of the full state after every call of the generated histories.")
TECHNIQUE = "Coq proof (invariant by induction over operations) + regenerated tables + vm_compute correspondence on recorded histories"
