"""C07 helpers: a light Python shadow of the construction API (used ONLY to steer the generator towards
interesting arguments and to decide when a history is worth shrinking -- never to judge), op application on the
real class, history shrinking."""
import json

NOFI = ("input", "0", "1", "x", "bb_output")
SINGLE = ("buf", "not", "bb_input")
SUPPORTED = ("buf", "and", "or", "xor", "not", "nand", "nor", "xnor", "0", "1", "x", "input", "bb_input", "bb_output")


class Rej(Exception):
    pass


def norm(x, connect_style=True):
    """argument normalisation of connect (falsy -> nothing to do) and of add/disconnect/remove/set_output (str -> [str])"""
    if x is None:
        return []
    if isinstance(x, str):
        return [] if (connect_style and x == "") else [x]
    return list(x)


class Sh:
    """shadow state: nodes name -> [type, output, set(fanin)], bb inst -> (ins, outs)"""

    def __init__(self, d=None):
        self.n = {}
        self.bb = {}
        if d:
            for n, t, o, fi in d["nodes"]:
                self.n[n] = [t, o, set(fi)]
            for i, bn, ins, outs in d.get("bbs", []):
                self.bb[i] = (bn, list(ins), list(outs))

    def fanout(self, u):
        return {v for v, x in self.n.items() if u in x[2]}

    def connect(self, us, vs):
        us, vs = norm(us), norm(vs)
        if not us or not vs:
            return
        for x in us + vs:
            if x not in self.n:
                raise Rej
        for v in vs:
            t = self.n[v][0]
            if t in NOFI:
                raise Rej
            if t in SINGLE and len(self.n[v][2]) + len(us) > 1:
                raise Rej
        for u in us:
            t = self.n[u][0]
            if t == "bb_input":
                raise Rej
            if t == "bb_output":
                if any(self.n[v][0] != "buf" for v in vs):
                    raise Rej
                if len(self.fanout(u)) + len(vs) > 1:
                    raise Rej
        for v in vs:
            self.n[v][2] |= set(us)

    def can_connect(self, us, vs):
        s = Sh()
        s.n = {k: [v[0], v[1], set(v[2])] for k, v in self.n.items()}
        try:
            s.connect(us, vs)
            return True
        except Rej:
            return False

    def uid(self, n):
        if n not in self.n:
            return n
        i = 0
        while f"{n}_{i}" in self.n:
            i = i + 1 if i < 10 else i * 7
        return f"{n}_{i}"

    def add(self, n, t, fi=None, fo=None, out=False, uid=False, conn=False, redef=False):
        if uid:
            n = self.uid(n)
        elif n in self.n and not redef:
            raise Rej
        fi, fo = norm(fi, False), norm(fo, False)
        if t not in SUPPORTED or (len(fi) > 1 and t in ("buf", "not")) or (fi and t in ("0", "1", "x", "input")):
            raise Rej
        if not n or n[0] in "0123456789":
            raise Rej
        self.n[n] = [t, out, self.n[n][2] if n in self.n else set()]
        if conn:
            for f in fi + fo:
                if f not in self.n:
                    self.add(f, "buf")
        new = [v for v in fo if v in self.n and n not in self.n[v][2]]
        self.connect(n, fo)
        try:
            self.connect(fi, n)
        except Rej:
            for v in new:
                self.n[v][2].discard(n)
            raise
        return n

    def disconnect(self, us, vs):
        for v in norm(vs, False):
            if v in self.n:
                self.n[v][2] -= set(norm(us, False))

    def remove(self, ns):
        ns = set(norm(ns, False))
        for x in ns:
            self.n.pop(x, None)
        for v in self.n.values():
            v[2] -= ns

    def set_output(self, ns, b):
        for x in norm(ns, False):
            if x not in self.n:
                raise Rej
            self.n[x][1] = b

    def add_blackbox(self, bn, ins, outs, inst, conns):
        if inst in self.bb:
            raise Rej
        io = []
        try:
            for p in ins:
                io.append(self.add(f"{inst}.{p}", "bb_input"))
            for p in outs:
                io.append(self.add(f"{inst}.{p}", "bb_output"))
            for k, ns in conns or []:
                if k in ins:
                    self.connect(ns, f"{inst}.{k}")
                elif k in outs:
                    self.connect(f"{inst}.{k}", ns)
                else:
                    raise Rej
        except Rej:
            self.remove(io)
            raise
        self.bb[inst] = (bn, list(ins), list(outs))

    def splice(self, sc, name, strip_in, strip_out):
        for n, t, o, fi in sc["nodes"]:
            old = self.n.get(f"{name}_{n}")
            self.n[f"{name}_{n}"] = [("buf" if n in strip_in else t), (False if n in strip_out else o),
                                     (old[2] if old else set()) | {f"{name}_{f}" for f in fi}]
        for i, bn, ins, outs in sc.get("bbs", []):
            self.bb[f"{name}_{i}"] = (bn, list(ins), list(outs))

    def add_subcircuit(self, sc, name, conns):
        if any(f"{name}_{b[0]}" in self.bb for b in sc.get("bbs", [])) or any(f"{name}_{x[0]}" in self.n for x in sc["nodes"]):
            raise Rej
        sin = {x[0] for x in sc["nodes"] if x[1] == "input"}
        sout = {x[0] for x in sc["nodes"] if x[2]}
        if any(k not in sin and k not in sout for k, _ in conns or []):
            raise Rej
        keep = json.dumps([sorted((k, v[0], v[1], sorted(v[2])) for k, v in self.n.items()), sorted(self.bb.items())])
        self.splice(sc, name, sin, sout)
        try:
            for k, ns in conns or []:
                if k in sin:
                    self.connect(ns, f"{name}_{k}")
                else:
                    self.connect(f"{name}_{k}", ns)
        except Rej:
            nodes, bbs = json.loads(keep)
            self.n = {k: [t, o, set(fi)] for k, t, o, fi in nodes}
            self.bb = {k: tuple(v) for k, v in bbs}
            raise

    def fill_blackbox(self, inst, sc):
        if inst not in self.bb:
            raise Rej
        _, ins, outs = self.bb[inst]
        sin = {x[0] for x in sc["nodes"] if x[1] == "input"}
        sout = {x[0] for x in sc["nodes"] if x[2]}
        if any(f"{inst}_{b[0]}" in self.bb for b in sc.get("bbs", [])) or sin != set(ins) or sout != set(outs):
            raise Rej
        if any(f"{inst}_{x[0]}" in self.n for x in sc["nodes"]):
            raise Rej
        ren = {f"{inst}.{p}": f"{inst}_{p}" for p in ins + outs}
        self.n = {ren.get(k, k): [v[0], v[1], {ren.get(f, f) for f in v[2]}] for k, v in self.n.items()}
        self.splice(sc, inst, set(ins), set(outs))
        del self.bb[inst]

    def apply(self, op):
        k = op[0]
        try:
            if k == "add":
                self.add(*op[1:])
            elif k == "addx":
                self.add(op[1], op[2], op[3], op[4], op[5], op[8], op[6], op[7])
            elif k == "connect":
                self.connect(op[1], op[2])
            elif k == "disconnect":
                self.disconnect(op[1], op[2])
            elif k == "remove":
                self.remove(op[1])
            elif k == "set_output":
                self.set_output(op[1], op[2])
            elif k == "add_blackbox":
                self.add_blackbox(*op[1:])
            elif k == "add_subcircuit":
                self.add_subcircuit(*op[1:])
            elif k == "fill_blackbox":
                self.fill_blackbox(*op[1:])
            return True
        except Rej:
            return False


# ---------------------------------------------------------------- the real class
def apply_real(cg, lib, c, op, pool=None):
    """apply one op to a circuitgraph.Circuit; returns (return value, recorded set orders).
    pool: BlackBox objects of this history by content -- one definition object is shared by all its instances, as in netlists"""
    k = op[0]
    if k == "add":
        return c.add(op[1], op[2], fanin=op[3], fanout=op[4], output=op[5], uid=op[6]), None
    if k == "addx":
        return c.add(op[1], op[2], fanin=op[3], fanout=op[4], output=op[5], add_connected_nodes=op[6], allow_redefinition=op[7], uid=op[8]), None
    if k == "connect":
        return c.connect(op[1], op[2]), None
    if k == "disconnect":
        return c.disconnect(op[1], op[2]), None
    if k == "remove":
        return c.remove(op[1]), None
    if k == "set_output":
        return c.set_output(op[1], op[2]), None
    if k == "add_blackbox":
        key = (op[1], tuple(op[2]), tuple(op[3]))
        bb = None if pool is None else pool.get(key)
        if bb is None:
            bb = cg.BlackBox(op[1], op[2], op[3])
            if pool is not None:
                pool[key] = bb
        orders = [list(bb.inputs()), list(bb.outputs())]     # iteration order of the two sets = order of pin creation
        conns = None if op[5] is None else {kk: v for kk, v in op[5]}
        try:
            return c.add_blackbox(bb, op[4], conns), orders
        except Exception as e:
            e._orders = orders
            raise
    if k == "add_subcircuit":
        conns = None if op[3] is None else {kk: v for kk, v in op[3]}
        return c.add_subcircuit(lib.build_circuit(op[1]), op[2], conns), None
    if k == "fill_blackbox":
        return c.fill_blackbox(op[1], lib.build_circuit(op[2])), None
    raise RuntimeError(f"unknown op {k}")


def canon_state(d):
    return json.dumps([d["name"], sorted([n, t, o, sorted(fi)] for n, t, o, fi in d["nodes"]), sorted(d["bbs"])])


def run_history(cg, lib, start, ops):
    c = lib.build_circuit(start) if start else cg.Circuit(name="top")
    first = lib.dump_circuit(c)
    prev = first
    steps = []
    pool = {}
    for op in ops:
        orders = None
        try:
            ret, orders = apply_real(cg, lib, c, op, pool)
            oc = "ok"
        except Exception as e:
            ret, oc = None, type(e).__name__
            orders = getattr(e, "_orders", None)
        cur = lib.dump_circuit(c)
        st = {"oc": oc, "ret": ret if isinstance(ret, str) else None, "state": None if canon_state(cur) == canon_state(prev) else cur}
        if orders is not None:
            st["orders"] = orders
        steps.append(st)
        prev = cur
    return first, steps


# ---------------------------------------------------------------- python-side suspicion test (drives shrinking only)
def py_inv(d, removed, pins=True):
    nodes = {n: (t, o, set(fi)) for n, t, o, fi in d["nodes"]}
    fo = {n: set() for n in nodes}
    for n, (t, o, fi) in nodes.items():
        for f in fi:
            if f not in nodes:
                return False
            fo[f].add(n)
    for n, (t, o, fi) in nodes.items():
        if t not in SUPPORTED or (t in NOFI and fi) or (t in SINGLE and len(fi) > 1):
            return False
        if t == "bb_input" and fo[n]:
            return False
        if t == "bb_output" and (len(fo[n]) > 1 or any(nodes[m][0] != "buf" for m in fo[n])):
            return False
    for inst, _, ins, outs in (d["bbs"] if pins else []):
        for ps, want in ((ins, "bb_input"), (outs, "bb_output")):
            for p in ps:
                pn = f"{inst}.{p}"
                if pn not in removed and (pn not in nodes or nodes[pn][0] != want):
                    return False
    return True


def edge_set(d):
    return {(f, n) for n, _, _, fi in d["nodes"] for f in fi}


def suspicious(first, ops, steps):
    """index of the first step after which the recorded state looks wrong, else None"""
    prev = first
    removed = set()
    for k, (op, st) in enumerate(zip(ops, steps)):
        cur = st["state"] or prev
        if op[0] == "addx" and op[7]:
            return None            # after a redefining add only the weak invariant is demanded; no shrinking heuristics
        if op[0] == "remove":
            removed |= set(norm(op[1], False))
        if not py_inv(cur, removed):
            return k
        if st["oc"] != "ok":
            if not edge_set(cur) <= edge_set(prev):
                return k
            if st["oc"] != "ValueError" and not (op[0] == "set_output" and st["oc"] == "KeyError"):
                return k
        if op[0] in ("add", "addx"):
            old = {n: (t, o, set(fi)) for n, t, o, fi in prev["nodes"]}
            new = {n: (t, o, set(fi)) for n, t, o, fi in cur["nodes"]}
            if any(n not in new or new[n][:2] != v[:2] or not v[2] <= new[n][2] for n, v in old.items()):
                return k
            if st["oc"] == "ok" and (st["ret"] in old or (op[2] not in SUPPORTED)):
                return k
        prev = cur
    return None


def shrink(cg, lib, start, ops, steps, first):
    """greedy one-op-at-a-time removal keeping the history suspicious; returns (ops, steps) of a 1-minimal history"""
    k = suspicious(first, ops, steps)
    if k is None:
        return ops, steps, False
    ops = ops[:k + 1]
    changed = True
    while changed:
        changed = False
        i = len(ops) - 1
        while i >= 0:
            cand = ops[:i] + ops[i + 1:]
            if cand:
                f2, s2 = run_history(cg, lib, start, cand)
                k2 = suspicious(f2, cand, s2)
                if k2 is not None:
                    ops = cand[:k2 + 1]
                    changed = True
                    i = min(i, len(ops))
            i -= 1
    f2, s2 = run_history(cg, lib, start, ops)
    return ops, s2, True
