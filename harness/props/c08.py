"""C08: model counting and signal probability are exact."""
import json
import os
import tempfile
from fractions import Fraction

import lib
from lib import cs, cb, ccirc, cnat
from props import sat_util as U
from props import c01 as C01

ID = "C08"
RUN_MODULE = "Run.Run_C08"
GEN_FILES = ["Gen_cnf.v", "Gen_lint.v", "Gen_types.v"]
RULE = ("random lint-clean circuits <= 12 nodes with 0..7 startpoints (constants, flip-flop blackboxes, feedback edges, aux-looking names, "
        "circuits without any startpoint) x assumption sets (none, partial on inputs, internal nodes, complete, contradictory, unknown keys) "
        "for model_count and for the DIMACS file handed to approxmc; signal_probability(approx=False) of every kind of node of acyclic "
        "blackbox-free circuits (and NotImplementedError with blackboxes); non-trivial = at least one gate; distinct = input hash")
EXPLANATION = ("model_count loop invariant proved relative to a sound and complete solver (count = number of extendable startpoint valuations, "
               "fuel 2^|sp|+1 suffices); counts, exact rationals and the DIMACS structure tied to the implementation by correspondence; "
               "the oracle counts by brute force")
SHARD = 30
WIDEN = 1
HASHSEEDS = {"quick": [0, 1], "thorough": [0, 1, 2, 3, 4, 5, 6, 7]}


def small_circuit(rng, kind=None):
    for _ in range(50):
        d, tags = U.gen_circuit(rng, kind=kind, big=rng.random() < 0.2)
        sp = [n for n in d["nodes"] if n[1] in ("input", "bb_output")]
        if len(sp) <= 7 and len(d["nodes"]) <= 12:
            return d, tags
    return d, tags


def no_startpoints(rng):
    k = rng.choice(["0", "1"])
    nodes = [["k0", k, False, []], ["k1", rng.choice(["0", "1"]), False, []]]
    nodes.append(["g0", rng.choice(lib.MULTI), True, ["k0", "k1"]])
    nodes.append(["g1", rng.choice(lib.SINGLE), True, ["g0"]])
    return {"name": "top", "nodes": nodes, "bbs": []}, ["no-startpoints"]


def generate(rng, tier):
    quick = tier == "quick"
    out = []
    n = 56 if quick else 110
    for i in range(n):
        if i % 12 == 11:
            d, tags = no_startpoints(rng)
        else:
            d, tags = small_circuit(rng)
        for _ in range(2):
            a, ak = C01.gen_assumptions(rng, d)
            out.append({"fn": "count", "circuit": d, "assume": a, "akind": ak, "tags": tags})
        a, ak = C01.gen_assumptions(rng, d)
        out.append({"fn": "dimacs", "circuit": d, "assume": a, "akind": ak, "tags": tags})
    for i in range(n):
        kind = rng.choice(["dag", "dag", "parity", "const", "stress", "bb"])
        d, tags = small_circuit(rng, kind)
        names = [x[0] for x in d["nodes"]]
        for node in rng.sample(names, min(2, len(names))):
            out.append({"fn": "prob", "circuit": d, "node": node, "tags": tags})
    for i in range(n // 8):
        d, tags = U.gen_outside(rng)
        if tags[0] not in ("outside:x", "outside:empty_parity"):
            continue
        a, ak = C01.gen_assumptions(rng, d)
        out.append({"fn": "count", "circuit": d, "assume": a, "akind": ak, "tags": tags})
    return out


def parse_dimacs(text, variables):
    ind, nv, ncl, clauses = None, None, None, []
    for line in text.splitlines():
        s = line.strip()
        if not s:
            continue
        if s.startswith("c ind"):
            toks = s.split()[2:]
            if toks[-1] != "0":
                raise ValueError("c ind line not terminated by 0")
            ind = [int(x) for x in toks[:-1]]
        elif s.startswith("p cnf"):
            _, _, a, b = s.split()
            nv, ncl = int(a), int(b)
        elif s.startswith("c"):
            continue
        else:
            toks = s.split()
            if toks[-1] != "0":
                raise ValueError("clause line not terminated by 0")
            clauses.append([int(x) for x in toks[:-1]])
    return {"nv": nv, "ncl": ncl, "maxlit": max([abs(l) for c_ in clauses for l in c_] + [0]), "nlines": len(clauses),
            "ind": [U.name_var(variables.obj(i)) for i in ind], "cnf": U.named_clauses(clauses, variables)}


def impl(case):
    import circuitgraph as cg
    if case["fn"] == "skip":
        return {}
    return observe(cg, case["circuit"], case, True)


def observe(cg, d, case, follow):
    c = lib.build_circuit(d)
    obs = {"orders": U.record_orders(c)}
    a = case.get("assume")
    A = None if a is None else {k: v for k, v in a}
    try:
        if case["fn"] == "count":
            pool = None
            if follow:
                try:
                    _, pool = cg.sat.cnf(c)
                except Exception:
                    pool = None
            r = cg.sat.model_count(c, A)
            if not isinstance(r, int) or isinstance(r, bool):
                raise TypeError("model_count did not return an int")
            obs["count"] = r
            if pool is not None:
                # adaptive alias probing (see sat_util.alias_followups): nothing is generated for tuple-keyed auxiliaries
                fs = [[e, observe(cg, e, case, False)] for e in U.alias_followups(d, pool)]
                if fs:
                    obs["followups"] = fs
        elif case["fn"] == "prob":
            r = cg.props.signal_probability(c, case["node"], approx=False)
            fr = Fraction(float(r))
            obs["prob"] = [fr.numerator, fr.denominator]
        else:
            cap = tempfile.NamedTemporaryFile(prefix="verif_dimacs_", delete=False)
            cap.close()
            os.environ["VERIF_APPROXMC_CAPTURE"] = cap.name
            try:
                # same process, same sets: the IDPool of this call numbers the variables exactly like the one inside approx_model_count
                try:
                    _, variables = cg.sat.cnf(c)
                except Exception:
                    variables = None
                r = cg.sat.approx_model_count(c, A)
                obs["dimacs"] = parse_dimacs(open(cap.name).read(), variables)
                obs["dimacs"]["count"] = r
            finally:
                os.environ.pop("VERIF_APPROXMC_CAPTURE", None)
                os.unlink(cap.name)
    except Exception as e:
        obs["exc"] = type(e).__name__
    return obs


def count_term(case, d, obs):
    exc = U.cexn(obs["exc"]) if "exc" in obs else None
    return f"CCount {ccirc(d)} {U.cords(obs['orders'])} {U.cassign(case['assume'] or [])} {exc or '(Ok %s)' % cnat(obs['count'])}"


def to_coq(case, obs):
    if case["fn"] == "skip":
        return None
    d = case["circuit"]
    exc = U.cexn(obs["exc"]) if "exc" in obs else None
    if case["fn"] == "count":
        return U.cmany([count_term(case, d, obs)] + [count_term(case, e, o) for e, o in obs.get("followups", [])])
    if case["fn"] == "prob":
        o = exc or "(Ok (%s,%s))" % (cnat(obs["prob"][0]), cnat(obs["prob"][1]))
        return f"CProb {ccirc(d)} {cs(case['node'])} {o}"
    if exc:
        o = exc
    else:
        m = obs["dimacs"]
        o = "(Ok (%s,%s,%s,%s,%s,%s,%s))" % (cnat(m["nv"]), cnat(m["ncl"]), cnat(m["maxlit"]), cnat(m["nlines"]),
                                            lib.cl(U.cvar(v) for v in m["ind"]), U.cclauses(m["cnf"]), cnat(m["count"]))
    return f"CDimacs {ccirc(d)} {U.cords(obs['orders'])} {U.cassign(case['assume'] or [])} {o}"


def nontrivial(case, obs):
    return case["fn"] != "skip" and any(n[1] in lib.GATES and n[3] for n in case["circuit"]["nodes"])


def classify(case, obs):
    d = case["circuit"]
    tags = [case["fn"]] + ["kind:" + t for t in case.get("tags", [])]
    tags.append("startpoints:%d" % len([n for n in d["nodes"] if n[1] in ("input", "bb_output")]))
    if "exc" in obs:
        tags.append(case["fn"] + ":exc:" + obs["exc"])
    elif case["fn"] == "count":
        tags.append("assume:" + case.get("akind", "?"))
        tags.append("count:" + ("0" if obs["count"] == 0 else "1" if obs["count"] == 1 else ">1"))
    elif case["fn"] == "prob":
        p = Fraction(*obs["prob"])
        tags.append("prob:" + ("0" if p == 0 else "1" if p == 1 else "1/2" if p == Fraction(1, 2) else "other"))
    else:
        tags.append("assume:" + case.get("akind", "?"))
    return tags


def finding_signature(case, obs):
    return None


_MUTATE_BUDGET = [60]


def mutate_case(rng, case):
    """budgeted neighbourhood for the widened search (see c01.mutate_case)"""
    if _MUTATE_BUDGET[0] <= 0:
        return {"fn": "skip"}
    _MUTATE_BUDGET[0] -= 1
    d, tags = small_circuit(rng)
    if case["fn"] == "prob":
        return {"fn": "prob", "circuit": d, "node": rng.choice([x[0] for x in d["nodes"]]), "tags": tags}
    a, ak = C01.gen_assumptions(rng, d)
    return {"fn": case["fn"], "circuit": d, "assume": a, "akind": ak, "tags": tags}


CLAIMED = True
LEVEL_TEXT = ("Theorems (all lint-clean closed circuits without x, all operand orders, relative to a sound and complete solver): the model_count "
              "loop terminates within 2^|startpoints|+1 solver calls and returns the number of startpoint valuations that extend to a consistent "
              "valuation satisfying the assumptions; the DIMACS structure declares the startpoint variables as sampling set and its clause list "
              "has exactly those projected models; signal_probability, when it succeeds on a closed acyclic circuit, is the number of valuations "
              "of the startpoints reaching n under which n is 1 in the whole circuit, divided by 2^|those startpoints| (all full). Counts, the exact rational of the returned float and the captured DIMACS file are tied to the "
              "implementation by correspondence; the oracle recounts by brute force.")
LEVEL_NOTE = ("Trusted: as C01, plus the approxmc stand-in (its count is re-derived by the oracle) and float division (exact below 2^53; compared "
              "via fractions.Fraction). use_xor_clauses=True and user-supplied startpoints are outside the property (default plain-clause mode). DIMACS numbering is mapped back to names through an IDPool "
              "built by an identical cnf() call in the same process.")
TECHNIQUE = "Coq proof (loop invariant over blocked startpoint valuations, via C01) + vm_compute correspondence and brute-force oracle"
