"""C09: unrolling equals iterated execution (tx.unroll, tx.sequential_unroll)."""
import itertools
import json
import os

import lib
from lib import cs, csl, cb, ccirc, cl, cnat, cty

ID = "C09"
RUN_MODULE = "Run.Run_C09"
GEN_FILES = ["Gen_types.v", "Gen_lint.v"]
RULE = ("unroll: random lint-clean DAGs (1..4 inputs, 1..6 gates of all eight types, constants) x injective pairings of outputs to inputs "
        "with 0..3 state bits (random ones, and ALL pairings of small circuits), state outputs that are themselves primary inputs, "
        "n in 1..4 (quick) / 1..6 (thorough), free inputs of the result <= 6 (quick) / 10 (thorough) so that all input sequences are enumerated; "
        "sequential_unroll: DAGs with 1..3 spliced flops of one blackbox type (pins clk,d[,rst] -> q[,qn]), state feedback, unloaded Q, "
        "instance names where one extends another by '_'+char (acc/acc_HI, cnt/cnt_LSB, r/r_EN) with upper/lower-case port names, "
        "x all of add_flop_outputs, initial_values (None,'0','1','x',dict), remove_unloaded, ignore_pins; every sequential circuit is "
        "unrolled TWICE on the same object (instances sharing one BlackBox object) and graph + registry are dumped by content around "
        "each call; plus rejected calls (n=0, "
        "unknown state io, blackboxes) and name-stress circuits; non-trivial = at least one gate and n >= 1; distinct = canonical input hash")
EXPLANATION = ("models of unroll / sequential_unroll through the API model compared with the returned graph and io map; oracle simulates the "
               "sequential machine step by step for every valuation of the free inputs of the unrolled circuit")
SHARD = 8
HASHSEEDS = {"quick": [0, 1], "thorough": [0, 1]}
MAX_FREE = {"quick": 6, "thorough": 10}


def base(rng, n_in, n_gate, p_const=0.12):
    return lib.rand_dag(rng, n_in, n_gate, max_fanin=3, p_const=p_const, consts=("0", "1"), p_out=0.4)


def outs_ins(d):
    outs = [n[0] for n in d["nodes"] if n[2]]
    ins = [n[0] for n in d["nodes"] if n[1] == "input"]
    return outs, ins


def pick_n(rng, tier, s, others):
    hi = 4 if tier == "quick" else 6
    ns = [n for n in range(1, hi + 1) if s + n * others <= MAX_FREE[tier]]
    return rng.choice(ns) if ns else 1


def gen_unroll(rng, tier):
    n_in = rng.randint(1, 4)
    d = base(rng, n_in, rng.randint(1, 6))
    # some inputs are outputs as well (a state output may be a primary input)
    for n in d["nodes"]:
        if n[1] == "input" and rng.random() < 0.2:
            n[2] = True
    outs, ins = outs_ins(d)
    s = rng.randint(0, min(3, len(outs), len(ins)))
    ks = rng.sample(outs, s)
    vs = rng.sample(ins, s)
    sio = [[k, v] for k, v in zip(ks, vs)]
    n = pick_n(rng, tier, s, len(ins) - s)
    return {"fn": "unroll", "circuit": lib.shuffle_nodes(rng, d), "n": n, "sio": sio, "prefix": rng.choice(["cg_unroll"] * 4 + ["p", "u_0"]),
            "kind": f"unroll:s={s}"}


def gen_all_pairings(rng, tier):
    """one small circuit, every injective pairing of <= 3 outputs to inputs"""
    d = base(rng, rng.randint(2, 3), rng.randint(2, 4), p_const=0.0)
    outs, ins = outs_ins(d)
    outs = outs[:3]
    cases = []
    for s in range(1, min(3, len(outs), len(ins)) + 1):
        for ks in itertools.combinations(outs, s):
            for vs in itertools.permutations(ins, s):
                n = pick_n(rng, tier, s, len(ins) - s)
                cases.append({"fn": "unroll", "circuit": d, "n": n, "sio": [[k, v] for k, v in zip(ks, vs)], "prefix": "cg_unroll",
                              "kind": f"unroll-allpairs:s={s}"})
    rng.shuffle(cases)
    return cases[:14]


def gen_unroll_bad(rng, tier):
    c = gen_unroll(rng, tier)
    r = rng.random()
    if r < 0.3:
        c["n"] = 0; c["kind"] = "unroll:n=0"
    elif r < 0.6:
        names = [n[0] for n in c["circuit"]["nodes"]]
        gates = [n[0] for n in c["circuit"]["nodes"] if not n[2] and n[1] != "input"]
        c["sio"] = c["sio"] + [[rng.choice(gates or ["nope"]), rng.choice(names)]]; c["kind"] = "unroll:bad-state-io"
    elif r < 0.8:
        c["circuit"] = lib.add_flop(rng, c["circuit"]); c["kind"] = "unroll:blackbox"
    else:
        # a node that carries a name the construction generates
        d = c["circuit"]
        io = rng.choice([n[0] for n in d["nodes"] if n[2] or n[1] == "input"])
        new = rng.choice([f"{io}_{c['prefix']}_0", f"unrolled_0_{io}", f"{io}_{c['prefix']}_1"])
        if new not in [n[0] for n in d["nodes"]]:
            d["nodes"].append([new, "input", False, []])
            g = [n for n in d["nodes"] if n[1] in lib.MULTI]
            if g:
                g[0][3] = sorted(set(g[0][3]) | {new})
            else:
                d["nodes"][-1][2] = True
        c["kind"] = "unroll:names"
    return c


NAME_FAMILIES = [("acc", "acc_HI"), ("cnt", "cnt_LSB"), ("r", "r_EN"), ("cnt", "cnt_hi"), ("q", "q_B")]


def splice_flop(rng, d, inst, on, dp, qp):
    """lib.add_flop with free instance and port names: pins clk, <dp> -> <qp>; the q buffer feeds the loads of `on`"""
    d = json.loads(json.dumps(d))
    names = [n[0] for n in d["nodes"]]
    q = f"{inst}_qbuf"
    for n in d["nodes"]:
        n[3] = sorted(q if f == on else f for f in n[3])
    if "clk" not in names:
        d["nodes"].append(["clk", "input", False, []])
    d["nodes"].append([f"{inst}.{dp}", "bb_input", False, [on]])
    d["nodes"].append([f"{inst}.clk", "bb_input", False, ["clk"]])
    d["nodes"].append([f"{inst}.{qp}", "bb_output", False, []])
    d["nodes"].append([q, "buf", False, [f"{inst}.{qp}"]])
    if not any(q in n[3] for n in d["nodes"]):
        d["nodes"][-1][2] = True
    d["bbs"] = d.get("bbs", []) + [[inst, "ff", sorted(["clk", dp]), [qp]]]
    return d


def add_flops(rng, d, insts, extra_pins, dp="d", qp="q", rp="rst", qnp="qn"):
    """splice one flop per instance name into the DAG; q buffers feed the loads of the chosen node, and often the cone of D"""
    for inst in insts:
        cand = [n[0] for n in d["nodes"] if "." not in n[0] and n[1] not in ("0", "1") and n[0] != "clk" and n[0] != "rst"]
        on = rng.choice(cand)
        d = splice_flop(rng, d, inst, on, dp, qp)
        q = f"{inst}_qbuf"
        # state feedback: let a gate in the cone of D read Q as well
        cone, todo = set(), [on]
        byname = {n[0]: n for n in d["nodes"]}
        while todo:
            x = todo.pop()
            if x in cone:
                continue
            cone.add(x)
            todo += byname[x][3]
        gates = [byname[x] for x in sorted(cone) if byname[x][1] in lib.MULTI]
        if gates and rng.random() < 0.6:
            g = rng.choice(gates)
            g[3] = sorted(set(g[3]) | {q})
            byname[q][2] = byname[q][2] and rng.random() < 0.5
    if extra_pins:
        names = [n[0] for n in d["nodes"]]
        if "rst" not in names:
            d["nodes"].append(["rst", "input", False, []])
        for b in d["bbs"]:
            inst = b[0]
            d["nodes"].append([f"{inst}.{rp}", "bb_input", False, ["rst"]])
            d["nodes"].append([f"{inst}.{qnp}", "bb_output", False, []])
            b[2] = sorted(b[2] + [rp]); b[3] = sorted(b[3] + [qnp])
    return d


def gen_seq(rng, tier, ports=None, ign_form=None, fam=None):
    n_in = rng.randint(1, 2)
    d = base(rng, n_in, rng.randint(1, 5), p_const=0.08)
    k = rng.choice([1, 1, 2, 2, 3])
    extra = rng.random() < 0.25
    dp, qp = "d", "q"
    insts = [f"ff{i}" for i in range(k)]
    if fam is None and rng.random() < 0.4:
        # instance names where one extends the other by "_" + a character between the port initials, upper/lower-case ports
        fam_ = list(rng.choice(NAME_FAMILIES))
        dp, qp = rng.choice([("D", "Q"), ("d", "q")])
        insts = fam_ + (["ff2"] if rng.random() < 0.3 else [])
        rng.shuffle(insts)
        k = len(insts)
    if fam:
        # forced: a name family whose sorted D names and sorted Q names are in opposite instance order
        insts, (dp, qp) = list(fam[0]), fam[1]
        rng.shuffle(insts)
        k = len(insts)
        extra = False
    # extra pin names that CONTAIN the one-letter D / Q port name (a str ignore_pins must not be read as a set of characters)
    if ports:
        dp, qp = ports
        extra = True
    rp, qnp = ("CDN", "QN") if dp == "D" else rng.choice([("sd", "qn"), ("sd", "nq")] if ports else [("rst", "qn"), ("sd", "nq")])
    d = add_flops(rng, d, insts, extra, dp, qp, rp, qnp)
    kind = f"seq:flops={k}" + (":prefix-names" if insts[0][:2] != "ff" or k > 1 and insts[1][:2] != "ff" else "")
    if rng.random() < 0.15:
        # a flop whose Q drives nothing
        inst = rng.choice(d["bbs"])[0]
        q = f"{inst}_qbuf"
        if not any(q in n[3] for n in d["nodes"]):
            d["nodes"] = [n for n in d["nodes"] if n[0] != q]
            if not any(n[2] for n in d["nodes"]):
                [n for n in d["nodes"] if n[1] in lib.GATES][-1][2] = True
            kind += ":unloaded-q"
    ign = rng.choice([None, "clk", ["clk"], ["clk", rp], rp, [qnp], qnp, [rp, qnp]] if extra else [None, "clk", ["clk"]])
    if ign_form:
        ign = {"str-r": rp, "str-qn": qnp, "list": [rp, qnp], "none": None}[ign_form]
    gated = False
    if fam is None and rng.random() < 0.22:
        # C09-F4: an ordinary net that carries the name <inst>_clk (a gated clock that is also observed); with `clk` ignored it must
        # survive, without it the flattened pin name clashes and the call is rejected
        inst = rng.choice(d["bbs"])[0]
        en = rng.choice([n[0] for n in d["nodes"] if n[1] == "input" and n[0] not in ("clk", "rst")])
        d["nodes"].append([f"{inst}_clk", "and", True, sorted(["clk", en])])
        for nd in d["nodes"]:
            if nd[0] == f"{inst}.clk":
                nd[3] = [f"{inst}_clk"]
        gated = True
        kind += ":net-named-as-pin"
        if rng.random() < 0.8:
            ign = rng.choice(["clk", ["clk"], ["clk", rp] if extra else ["clk"]])
    kind += ":ign=" + ("none" if not ign else "str" if isinstance(ign, str) else "list")
    iv = rng.choice([None, "0", "1", "dict", "dict", "x"])
    if iv == "dict":
        insts_ = [b[0] for b in d["bbs"]]
        iv = {b: rng.choice(["0", "1", "1", "0", "x"]) for b in rng.sample(insts_, rng.randint(1, len(insts_)))}
    ru = rng.random() < 0.6 or "prefix-names" in kind or bool(fam)
    # clk / rst only drive flop pins: with remove_unloaded they do not become per-step inputs
    ins = [n[0] for n in d["nodes"] if n[1] == "input" and not (ru and (n[0] == "rst" or n[0] == "clk" and not gated))]
    hi = 3 if tier == "quick" else 4
    ns = [n for n in range(1, hi + 1) if k + n * len(ins) <= MAX_FREE[tier]]
    if ("prefix-names" in kind or fam) and [n for n in ns if n >= 2]:
        ns = [n for n in ns if n >= 2]
    n = rng.choice(ns) if ns else 1
    n2 = 1 if n > 1 else (2 if 2 in ns else 1)          # the second call on the same object stays inside the enumeration budget
    once = tier == "quick" and rng.random() < 0.6       # quick tier: the second call on 40 % of the circuits (every call is dump-guarded)
    return {"fn": "sequential_unroll", "circuit": lib.shuffle_nodes(rng, d), "n": n, "n2": n2, "d": dp, "q": qp, "ign": ign,
            "afo": rng.random() < 0.5, "iv": iv, "ru": ru, "prefix": "cg_unroll", "kind": kind, "once": once}


def gen_seq_str_ign(rng, tier):
    """ignore_pins as a plain multi-letter str that CONTAINS the one-letter D / Q port name (CDN / QN with ports D / Q, sd / nq or
    qn with ports d / q), the list and None forms come from gen_seq"""
    out = []
    for ports, form in ((("D", "Q"), "str-r"), (("D", "Q"), "str-qn"), (("d", "q"), "str-qn"), (("d", "q"), "str-r")):
        c = gen_seq(rng, tier, ports, form)
        c["kind"] += ":one-letter-port-in-str" if form.startswith("str") else ""
        out.append(c)
    return out


# (instances, ports): the character after "_" lies between the two port initials, so sorted(<inst>_<D>) and sorted(<inst>_<Q>) disagree
FLIP_FAMILIES = [(("acc", "acc_HI"), ("D", "Q")), (("cnt", "cnt_LSB"), ("D", "Q")), (("r", "r_EN"), ("D", "Q")), (("cnt", "cnt_hi"), ("d", "q"))]


def gen_seq_name_prefix(rng, tier):
    """>= 2 flops from every name family above, n >= 2 whenever the budget allows (it does: <= 2 primary inputs, clk swept)"""
    out = []
    for fam in FLIP_FAMILIES:
        c = gen_seq(rng, tier, fam=fam)
        c["kind"] = "seq-name-prefix"
        out.append(c)
    return out


def bare_flop(d, inst, on):
    """a flop whose Q pin drives nothing: pins only, no q buffer"""
    if "clk" not in [n[0] for n in d["nodes"]]:
        d["nodes"].append(["clk", "input", False, []])
    d["nodes"] += [[f"{inst}.d", "bb_input", False, [on]], [f"{inst}.clk", "bb_input", False, ["clk"]], [f"{inst}.q", "bb_output", False, []]]
    d["bbs"] = d.get("bbs", []) + [[inst, "ff", ["clk", "d"], ["q"]]]


def gen_seq_unloaded_q(rng, tier):
    """remove_unloaded=True on flops whose Q drives nothing, next to several other unloaded inputs (clk, rst, spare inputs): the sweep
    visits the inputs in set order, so the Q nodes must survive whatever comes before them (several names = several orders per hash seed)"""
    out = []
    for insts in (["ff0"], ["cap_0", "u1"], ["acc", "acc_HI"], ["r"], ["zz", "q_B", "m"]):
        d = base(rng, rng.randint(1, 2), rng.randint(1, 3), p_const=0.0)
        u = rng.randint(1, len(insts))
        for inst in insts[:u]:
            bare_flop(d, inst, rng.choice([n[0] for n in d["nodes"] if "." not in n[0] and n[0] != "clk"]))
        d = add_flops(rng, d, insts[u:], rng.random() < 0.5)
        for j in range(rng.randint(0, 1)):
            d["nodes"].append([f"spare{j}", "input", False, []])
        if not any(nd[2] for nd in d["nodes"]):
            [nd for nd in d["nodes"] if nd[1] in lib.GATES][-1][2] = True
        k = len(insts)
        ins = [nd[0] for nd in d["nodes"] if nd[1] == "input"]
        out.append({"fn": "sequential_unroll", "circuit": lib.shuffle_nodes(rng, d), "n": 1, "n2": 1,
                    "d": "d", "q": "q", "ign": rng.choice([None, "clk"]), "afo": rng.random() < 0.5, "iv": rng.choice([None, "0"]), "ru": True,
                    "prefix": "cg_unroll", "kind": "seq-unloaded-q", "once": True})
    return out


def worst_case_n(c0, tier):
    """largest n (<= the case's n) whose free inputs stay inside the budget for EVERY flag combination (clk / rst kept as inputs)"""
    k = len(c0["circuit"]["bbs"])
    ins = [x for x in c0["circuit"]["nodes"] if x[1] == "input"]
    ns = [n for n in range(1, c0["n"] + 1) if k + n * len(ins) <= MAX_FREE[tier] - (1 if tier == "quick" else 0)]   # 12 flag combinations each
    return max(ns) if ns else 1


def gen_seq_flags(rng, tier):
    """one sequential circuit under every flag combination"""
    c0 = gen_seq(rng, tier)
    c0["n"] = worst_case_n(c0, tier)
    insts = [b[0] for b in c0["circuit"]["bbs"]]
    out = []
    for afo in (False, True):
        for iv in ((None, "0", "1", {insts[0]: "1"}) if tier != "quick" else (None, "1", {insts[0]: "0"})):
            for ru in (False, True):
                c = json.loads(json.dumps(c0))
                c.update(afo=afo, iv=iv, ru=ru, kind="seq-flags", once=True)
                out.append(c)
    return out


def gen_seq_dict_orders(rng, tier):
    """2..3 flops, per-flop initial_values dicts in every key order with non-uniform values"""
    c0 = gen_seq(rng, tier)
    while len(c0["circuit"]["bbs"]) < 2:
        c0 = gen_seq(rng, tier)
    c0["n"] = worst_case_n(c0, tier)
    insts = [b[0] for b in c0["circuit"]["bbs"]]
    out = []
    for perm in list(itertools.permutations(insts))[:4]:
        vals = ["0", "1", "1"][:len(perm)] if rng.random() < 0.5 else ["1", "0", "0"][:len(perm)]
        for sub in (perm, perm[:-1]):
            c = json.loads(json.dumps(c0))
            c.update(iv={k: v for k, v in zip(sub, vals)}, kind="seq-dict-order", once=True)
            out.append(c)
    return out


def generate(rng, tier):
    nu, na, ns, nf = (46, 1, 16, 1) if tier == "quick" else (170, 5, 80, 3)
    sc = float(os.environ.get("VERIF_SCALE", "1"))      # <1 only for mutant trials on a loaded machine
    nu, na, ns, nf = max(8, int(nu * sc)), max(1, int(na * sc)), max(8, int(ns * sc)), max(1, int(nf * sc))
    out = [gen_unroll(rng, tier) for _ in range(nu)]
    for _ in range(na):
        out += gen_all_pairings(rng, tier)
    out += [gen_unroll_bad(rng, tier) for _ in range(nu // 8)]
    out += [gen_seq(rng, tier) for _ in range(ns)]
    for _ in range(nf):
        out += gen_seq_flags(rng, tier)
        out += gen_seq_dict_orders(rng, tier)
        out += gen_seq_unloaded_q(rng, tier)
        out += gen_seq_str_ign(rng, tier)
        out += gen_seq_name_prefix(rng, tier)
    # balance the Coq shards: the (heavy) sequential cases are spread evenly between the unroll cases
    seqs = [c for c in out if c["fn"] != "unroll"]
    unrs = [c for c in out if c["fn"] == "unroll"]
    mixed, k = [], max(1, round(len(unrs) / max(1, len(seqs))))
    while seqs or unrs:
        if seqs:
            mixed.append(seqs.pop(0))
        mixed += unrs[:k]
        unrs = unrs[k:]
    return mixed


def _call(cg, c, case):
    try:
        if case["fn"] == "unroll":
            uc, m = cg.tx.unroll(c, case["n"], {k: v for k, v in case["sio"]}, prefix=case["prefix"])
        else:
            uc, m = cg.tx.sequential_unroll(c, case["n"], case["d"], case["q"], ignore_pins=case["ign"], add_flop_outputs=case["afo"],
                                            initial_values=case["iv"], remove_unloaded=case["ru"], prefix=case["prefix"])
    except Exception as e:
        return {"exc": type(e).__name__, "msg": str(e)[:120]}
    return {"out": lib.dump_circuit(uc), "io_map": sorted([k, list(v)] for k, v in m.items())}


def second_call(case):
    """the parameters of the second call on the same circuit object: another n, other flags"""
    c2 = dict(case)
    c2["n"] = case.get("n2", 1)
    c2["afo"] = not case["afo"]
    c2["iv"] = "0" if case["iv"] is None else None
    return c2


def impl(case):
    import circuitgraph as cg
    c = lib.build_circuit(case["circuit"])
    if case["fn"] == "unroll":
        before = lib.dump_circuit(c)
        obs = _call(cg, c, case)
        obs["unchanged"] = lib.dump_circuit(c) == before
        return obs
    # flop instances of one type share ONE BlackBox object, as in circuits built through add_blackbox / the readers
    shared = {}
    for inst, bb in list(c.blackboxes.items()):
        key = (bb.name, tuple(sorted(bb.inputs())), tuple(sorted(bb.outputs())))
        c.blackboxes[inst] = shared.setdefault(key, bb)
    before = lib.dump_circuit(c)          # graph and registry BY CONTENT (name, sorted inputs, sorted outputs)
    first = _call(cg, c, case)
    mid = lib.dump_circuit(c)
    if case.get("once"):
        first["unchanged"] = before == mid
        return {"first": first, "second": None, "unchanged": before == mid, "registry": None}
    second = _call(cg, c, second_call(case))
    after = lib.dump_circuit(c)
    return {"first": first, "second": second, "unchanged": before == mid == after,
            "registry": [before["bbs"], mid["bbs"], after["bbs"]] if not before == mid == after else None}


def cobs(obs):
    if "out" in obs:
        m = cl("(%s,%s)" % (cs(k), csl(v)) for k, v in obs["io_map"])
        return f"(Ok ({ccirc(obs['out'])},{m}))"
    e = obs["exc"]
    return f"(Raise {e})" if e in ("ValueError", "KeyError", "IndexError", "StopIteration", "NotImplementedError") else "(Raise OtherError)"


def civ(iv):
    if iv is None:
        return "IvNone"
    if isinstance(iv, str):
        return f"(IvAll {cty(iv)})"
    return "(IvDict %s)" % cl("(%s,%s)" % (cs(k), cty(v)) for k, v in iv.items())


def cseq(case, obs):
    ign = case["ign"]
    ign = [] if not ign else [ign] if isinstance(ign, str) else ign
    return (f"(CSeq {ccirc(case['circuit'])} {cnat(case['n'])} {cs(case['d'])} {cs(case['q'])} {csl(ign)} {cb(case['afo'])} {civ(case['iv'])} "
            f"{cb(case['ru'])} {cs(case['prefix'])} {cobs(obs)})")


def to_coq(case, obs):
    if case["fn"] == "unroll":
        if "out" in obs and len(obs["out"]["nodes"]) > 90:
            return None
        sio = cl("(%s,%s)" % (cs(k), cs(v)) for k, v in case["sio"])
        return f"CKeep (CUnroll {ccirc(case['circuit'])} {cnat(case['n'])} {sio} {cs(case['prefix'])} {cobs(obs)}) {cb(obs['unchanged'])}"
    for o in (obs["first"], obs["second"]):
        if o and "out" in o and len(o["out"]["nodes"]) > 90:
            return None
    if obs["second"] is None:
        return f"CKeep {cseq(case, obs['first'])} {cb(obs['unchanged'])}"
    return f"CTwice {cseq(case, obs['first'])} {cseq(second_call(case), obs['second'])} {cb(obs['unchanged'])}"


def nontrivial(case, obs):
    return case["n"] >= 1 and any(n[1] in lib.GATES for n in case["circuit"]["nodes"])


def classify(case, obs):
    o1 = obs if case["fn"] == "unroll" else obs["first"]
    ks = [case["kind"], f"n={case['n']}", "raise:" + o1["exc"] if "exc" in o1 else "ok"]
    if not obs.get("unchanged", True):
        ks.append("ARGUMENT-CHANGED")
    if case["fn"] == "unroll":
        ins = {n[0] for n in case["circuit"]["nodes"] if n[1] == "input"}
        if any(k in ins for k, _ in case["sio"]):
            ks.append("state-output-is-input")
    else:
        iv = case["iv"]
        ks += [f"afo={case['afo']}", f"ru={case['ru']}", "iv=" + ("None" if iv is None else iv if isinstance(iv, str) else "dict")]
    return ks


def finding_signature(case, obs):
    return None


def mutate_case(rng, case):
    return gen_unroll(rng, "quick") if case.get("fn") == "unroll" else gen_seq(rng, "quick")


CLAIMED = True
LEVEL_TEXT = ("Theorem C09_unroll (about the API-level model of tx.unroll, no per-case residue): inside the guards the model RETURNS a "
              "lint-clean circuit and io map with io_map[o][t] = <o>_<prefix>_<t>, inputs = step-0 state inputs + per-step copies of the "
              "other inputs, and every consistent valuation carries at io_map[o][t] the value of running c for t+1 steps (all n, all "
              "pairings; induction on the step; model = closed form and totality proved through the API step lemmas). Theorem "
              "C09_sequential_unroll_full (about the model and the FLOP CIRCUIT ITSELF): inside the guards sequential_unroll RETURNS, its io "
              "map has the D and Q pin of every flop and no other pin, every consistent valuation carries at io_map[x][t] the value of node x "
              "in cycle t of the cycle-accurate simulation (state = Q pins, next state = D pins) from the step-0 Q nodes, which are inputs "
              "or the given constants (None/'0'/'1'/'x'/dict); D copies are outputs iff add_flop_outputs (chain of node removals that delete "
              "only unread nodes, induction on the cycle, uniqueness of runs). The Coq oracle additionally decides every case by step-by-step "
              "simulation over all free-input valuations (every flag combination, two calls on one object, argument unchanged).")
LEVEL_NOTE = ("Trusted: Coq kernel + vm_compute, std++, harness; models tied to the Python code by correspondence on the returned graph and "
              "io map. Compose6.strip_blackboxes (C06's model) is reused. Guards: no bb-typed nodes, no empty/digit-leading names, no x "
              "constants, dot-free prefix, generated names (<io>_<prefix>_<t>, unrolled_<t>_*) do not collide with node names. Sequential "
              "clause: one blackbox type, dot-free instance/pin names, flattened names <inst>_<pin> unambiguous and not node names, only Q "
              "pins are read (a loaded non-D/Q output pin leaves an undriven buffer: outside lint_clean of the stripped circuit), D/Q not "
              "ignored, dict keys distinct instances.")
TECHNIQUE = "Coq model through the proved API model + vm_compute correspondence + exhaustive step-by-step simulation oracle"
