"""C09: unrolling equals iterated execution (tx.unroll, tx.sequential_unroll)."""
import itertools
import json
import os

import lib
from lib import cs, csl, cb, ccirc, cl, cnat, cty

ID = "C09"
RUN_MODULE = "Run.Run_C09"
GEN_FILES = ["Gen_types.v", "Gen_lint.v"]
RULE = ("unroll: random lint-clean DAGs (1..4 inputs, 1..6 gates of all eight types, constants) x injective pairings of outputs to inputs "
        "with 0..3 state bits (random ones, and ALL pairings of small circuits), state outputs that are themselves primary inputs, "
        "n in 1..4 (quick) / 1..6 (thorough), free inputs of the result <= 7 (quick) / 10 (thorough) so that all input sequences are enumerated; "
        "sequential_unroll: DAGs with 1..3 spliced flops of one blackbox type (pins clk,d[,rst] -> q[,qn]), state feedback, unloaded Q, "
        "x all of add_flop_outputs, initial_values (None,'0','1','x',dict), remove_unloaded, ignore_pins; plus rejected calls (n=0, "
        "unknown state io, blackboxes) and name-stress circuits; non-trivial = at least one gate and n >= 1; distinct = canonical input hash")
EXPLANATION = ("models of unroll / sequential_unroll through the API model compared with the returned graph and io map; oracle simulates the "
               "sequential machine step by step for every valuation of the free inputs of the unrolled circuit")
SHARD = 8
HASHSEEDS = {"quick": [0, 1], "thorough": [0, 1]}
MAX_FREE = {"quick": 7, "thorough": 10}


def base(rng, n_in, n_gate, p_const=0.12):
    return lib.rand_dag(rng, n_in, n_gate, max_fanin=3, p_const=p_const, consts=("0", "1"), p_out=0.4)


def outs_ins(d):
    outs = [n[0] for n in d["nodes"] if n[2]]
    ins = [n[0] for n in d["nodes"] if n[1] == "input"]
    return outs, ins


def pick_n(rng, tier, s, others):
    hi = 4 if tier == "quick" else 6
    ns = [n for n in range(1, hi + 1) if s + n * others <= MAX_FREE[tier]]
    return rng.choice(ns) if ns else 1


def gen_unroll(rng, tier):
    n_in = rng.randint(1, 4)
    d = base(rng, n_in, rng.randint(1, 6))
    # some inputs are outputs as well (a state output may be a primary input)
    for n in d["nodes"]:
        if n[1] == "input" and rng.random() < 0.2:
            n[2] = True
    outs, ins = outs_ins(d)
    s = rng.randint(0, min(3, len(outs), len(ins)))
    ks = rng.sample(outs, s)
    vs = rng.sample(ins, s)
    sio = [[k, v] for k, v in zip(ks, vs)]
    n = pick_n(rng, tier, s, len(ins) - s)
    return {"fn": "unroll", "circuit": lib.shuffle_nodes(rng, d), "n": n, "sio": sio, "prefix": rng.choice(["cg_unroll"] * 4 + ["p", "u_0"]),
            "kind": f"unroll:s={s}"}


def gen_all_pairings(rng, tier):
    """one small circuit, every injective pairing of <= 3 outputs to inputs"""
    d = base(rng, rng.randint(2, 3), rng.randint(2, 4), p_const=0.0)
    outs, ins = outs_ins(d)
    outs = outs[:3]
    cases = []
    for s in range(1, min(3, len(outs), len(ins)) + 1):
        for ks in itertools.combinations(outs, s):
            for vs in itertools.permutations(ins, s):
                n = pick_n(rng, tier, s, len(ins) - s)
                cases.append({"fn": "unroll", "circuit": d, "n": n, "sio": [[k, v] for k, v in zip(ks, vs)], "prefix": "cg_unroll",
                              "kind": f"unroll-allpairs:s={s}"})
    rng.shuffle(cases)
    return cases[:14]


def gen_unroll_bad(rng, tier):
    c = gen_unroll(rng, tier)
    r = rng.random()
    if r < 0.3:
        c["n"] = 0; c["kind"] = "unroll:n=0"
    elif r < 0.6:
        names = [n[0] for n in c["circuit"]["nodes"]]
        gates = [n[0] for n in c["circuit"]["nodes"] if not n[2] and n[1] != "input"]
        c["sio"] = c["sio"] + [[rng.choice(gates or ["nope"]), rng.choice(names)]]; c["kind"] = "unroll:bad-state-io"
    elif r < 0.8:
        c["circuit"] = lib.add_flop(rng, c["circuit"]); c["kind"] = "unroll:blackbox"
    else:
        # a node that carries a name the construction generates
        d = c["circuit"]
        io = rng.choice([n[0] for n in d["nodes"] if n[2] or n[1] == "input"])
        new = rng.choice([f"{io}_{c['prefix']}_0", f"unrolled_0_{io}", f"{io}_{c['prefix']}_1"])
        if new not in [n[0] for n in d["nodes"]]:
            d["nodes"].append([new, "input", False, []])
            g = [n for n in d["nodes"] if n[1] in lib.MULTI]
            if g:
                g[0][3] = sorted(set(g[0][3]) | {new})
            else:
                d["nodes"][-1][2] = True
        c["kind"] = "unroll:names"
    return c


def add_flops(rng, d, k, extra_pins):
    """splice k flops (pins clk, d [, rst] -> q [, qn]) into the DAG; q buffers feed the loads of the chosen node"""
    for i in range(k):
        inst = f"ff{i}"
        cand = [n[0] for n in d["nodes"] if "." not in n[0] and n[1] not in ("0", "1") and n[0] != "clk" and n[0] != "rst"]
        on = rng.choice(cand)
        d = lib.add_flop(rng, d, inst=inst, on=on)
        q = f"{inst}_qbuf"
        # state feedback: let a gate in the cone of D read Q as well
        cone, todo = set(), [on]
        byname = {n[0]: n for n in d["nodes"]}
        while todo:
            x = todo.pop()
            if x in cone:
                continue
            cone.add(x)
            todo += byname[x][3]
        gates = [byname[x] for x in sorted(cone) if byname[x][1] in lib.MULTI]
        if gates and rng.random() < 0.6:
            g = rng.choice(gates)
            g[3] = sorted(set(g[3]) | {q})
            byname[q][2] = byname[q][2] and rng.random() < 0.5
    if extra_pins:
        names = [n[0] for n in d["nodes"]]
        if "rst" not in names:
            d["nodes"].append(["rst", "input", False, []])
        for b in d["bbs"]:
            inst = b[0]
            d["nodes"].append([f"{inst}.rst", "bb_input", False, ["rst"]])
            d["nodes"].append([f"{inst}.qn", "bb_output", False, []])
            b[2] = sorted(b[2] + ["rst"]); b[3] = sorted(b[3] + ["qn"])
    return d


def gen_seq(rng, tier):
    n_in = rng.randint(1, 2)
    d = base(rng, n_in, rng.randint(1, 5), p_const=0.08)
    k = rng.choice([1, 1, 2, 2, 3])
    extra = rng.random() < 0.25
    d = add_flops(rng, d, k, extra)
    kind = f"seq:flops={k}"
    if rng.random() < 0.15:
        # a flop whose Q drives nothing
        inst = rng.choice(d["bbs"])[0]
        q = f"{inst}_qbuf"
        if not any(q in n[3] for n in d["nodes"]):
            d["nodes"] = [n for n in d["nodes"] if n[0] != q]
            if not any(n[2] for n in d["nodes"]):
                [n for n in d["nodes"] if n[1] in lib.GATES][-1][2] = True
            kind += ":unloaded-q"
    ign = rng.choice([None, "clk", ["clk"], ["clk", "rst"], "rst", ["qn"]] if extra else [None, "clk", ["clk"]])
    iv = rng.choice([None, "0", "1", "dict", "dict", "x"])
    if iv == "dict":
        insts = [b[0] for b in d["bbs"]]
        iv = {b: rng.choice(["0", "1", "1", "0", "x"]) for b in rng.sample(insts, rng.randint(1, len(insts)))}
    ins = [n[0] for n in d["nodes"] if n[1] == "input"]
    hi = 3 if tier == "quick" else 4
    ns = [n for n in range(1, hi + 1) if k + n * len(ins) <= MAX_FREE[tier]]
    n = rng.choice(ns) if ns else 1
    return {"fn": "sequential_unroll", "circuit": lib.shuffle_nodes(rng, d), "n": n, "d": "d", "q": "q", "ign": ign,
            "afo": rng.random() < 0.5, "iv": iv, "ru": rng.random() < 0.6, "prefix": "cg_unroll", "kind": kind}


def gen_seq_flags(rng, tier):
    """one sequential circuit under every flag combination"""
    c0 = gen_seq(rng, tier)
    insts = [b[0] for b in c0["circuit"]["bbs"]]
    out = []
    for afo in (False, True):
        for iv in (None, "0", "1", {insts[0]: "1"}):
            for ru in (False, True):
                c = json.loads(json.dumps(c0))
                c.update(afo=afo, iv=iv, ru=ru, kind="seq-flags")
                out.append(c)
    return out


def gen_seq_dict_orders(rng, tier):
    """2..3 flops, per-flop initial_values dicts in every key order with non-uniform values"""
    c0 = gen_seq(rng, tier)
    while len(c0["circuit"]["bbs"]) < 2:
        c0 = gen_seq(rng, tier)
    insts = [b[0] for b in c0["circuit"]["bbs"]]
    out = []
    for perm in list(itertools.permutations(insts))[:4]:
        vals = ["0", "1", "1"][:len(perm)] if rng.random() < 0.5 else ["1", "0", "0"][:len(perm)]
        for sub in (perm, perm[:-1]):
            c = json.loads(json.dumps(c0))
            c.update(iv={k: v for k, v in zip(sub, vals)}, kind="seq-dict-order")
            out.append(c)
    return out


def generate(rng, tier):
    nu, na, ns, nf = (70, 2, 45, 1) if tier == "quick" else (200, 6, 120, 4)
    sc = float(os.environ.get("VERIF_SCALE", "1"))      # <1 only for mutant trials on a loaded machine
    nu, na, ns, nf = max(8, int(nu * sc)), max(1, int(na * sc)), max(8, int(ns * sc)), max(1, int(nf * sc))
    out = [gen_unroll(rng, tier) for _ in range(nu)]
    for _ in range(na):
        out += gen_all_pairings(rng, tier)
    out += [gen_unroll_bad(rng, tier) for _ in range(nu // 8)]
    out += [gen_seq(rng, tier) for _ in range(ns)]
    for _ in range(nf):
        out += gen_seq_flags(rng, tier)
        out += gen_seq_dict_orders(rng, tier)
    return out


def impl(case):
    import circuitgraph as cg
    c = lib.build_circuit(case["circuit"])
    before = lib.dump_circuit(c)
    try:
        if case["fn"] == "unroll":
            uc, m = cg.tx.unroll(c, case["n"], {k: v for k, v in case["sio"]}, prefix=case["prefix"])
        else:
            uc, m = cg.tx.sequential_unroll(c, case["n"], case["d"], case["q"], ignore_pins=case["ign"], add_flop_outputs=case["afo"],
                                            initial_values=case["iv"], remove_unloaded=case["ru"], prefix=case["prefix"])
    except Exception as e:
        return {"exc": type(e).__name__, "msg": str(e)[:120], "unchanged": lib.dump_circuit(c) == before}
    return {"out": lib.dump_circuit(uc), "io_map": sorted([k, list(v)] for k, v in m.items()), "unchanged": lib.dump_circuit(c) == before}


def cobs(obs):
    if "out" in obs:
        m = cl("(%s,%s)" % (cs(k), csl(v)) for k, v in obs["io_map"])
        return f"(Ok ({ccirc(obs['out'])},{m}))"
    e = obs["exc"]
    return f"(Raise {e})" if e in ("ValueError", "KeyError", "IndexError", "StopIteration", "NotImplementedError") else "(Raise OtherError)"


def civ(iv):
    if iv is None:
        return "IvNone"
    if isinstance(iv, str):
        return f"(IvAll {cty(iv)})"
    return "(IvDict %s)" % cl("(%s,%s)" % (cs(k), cty(v)) for k, v in iv.items())


def to_coq(case, obs):
    if "out" in obs and len(obs["out"]["nodes"]) > 90:
        return None
    if case["fn"] == "unroll":
        sio = cl("(%s,%s)" % (cs(k), cs(v)) for k, v in case["sio"])
        return f"CUnroll {ccirc(case['circuit'])} {cnat(case['n'])} {sio} {cs(case['prefix'])} {cobs(obs)}"
    ign = case["ign"]
    ign = [] if not ign else [ign] if isinstance(ign, str) else ign
    return (f"CSeq {ccirc(case['circuit'])} {cnat(case['n'])} {cs(case['d'])} {cs(case['q'])} {csl(ign)} {cb(case['afo'])} {civ(case['iv'])} "
            f"{cb(case['ru'])} {cs(case['prefix'])} {cobs(obs)}")


def nontrivial(case, obs):
    return case["n"] >= 1 and any(n[1] in lib.GATES for n in case["circuit"]["nodes"])


def classify(case, obs):
    ks = [case["kind"], f"n={case['n']}", "raise:" + obs["exc"] if "exc" in obs else "ok"]
    if case["fn"] == "unroll":
        ins = {n[0] for n in case["circuit"]["nodes"] if n[1] == "input"}
        if any(k in ins for k, _ in case["sio"]):
            ks.append("state-output-is-input")
    else:
        iv = case["iv"]
        ks += [f"afo={case['afo']}", f"ru={case['ru']}", "iv=" + ("None" if iv is None else iv if isinstance(iv, str) else "dict")]
    return ks


def finding_signature(case, obs):
    return None


def mutate_case(rng, case):
    return gen_unroll(rng, "quick") if case.get("fn") == "unroll" else gen_seq(rng, "quick")


CLAIMED = True
LEVEL_TEXT = ("Theorems (all closed acyclic circuits whose free nodes are the inputs, all n, all state pairings with distinct generated names): "
              "every consistent valuation of the closed form of unroll's result carries at io_map[o][t] the value of running c for t+1 steps "
              "(induction on the step; run = iterated evalc, proved to be the unique run), its inputs are exactly the step-0 state inputs and the "
              "per-step copies of the other inputs, io_map[io][t] = <io>_<prefix>_<t>. That the API-level model equals the closed form, "
              "lint-cleanliness of the result, and the whole sequential_unroll clause (every flag combination) are decided per case by the Coq "
              "oracle on what the implementation returned: step-by-step simulation for every valuation of the free inputs.")
LEVEL_NOTE = ("Trusted: Coq kernel + vm_compute, std++, harness. Models of unroll/sequential_unroll are tied to the code by correspondence on "
              "the returned graph and io map. Guard: generated names (<io>_<prefix>_<t>, unrolled_<t>_*) do not collide with node names.")
TECHNIQUE = "Coq model through the proved API model + vm_compute correspondence + exhaustive step-by-step simulation oracle"
