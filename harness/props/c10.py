"""C10: the ternary encoding (tx.ternary) computes Kleene three-valued simulation."""
import json

import lib
from lib import cs, cl, csl, ccirc

ID = "C10"
RUN_MODULE = "Run.Run_C10"
GEN_FILES = ["Gen_tern.v"]
RULE = ("random lint-clean blackbox-free acyclic circuits (1-5 inputs, 1-8 gates of all 8 gate types, fan-in 1-4, constants 0/1, "
        "outputs on inputs/gates), node insertion order shuffled (gates before their fan-in included), name pools that collide with "
        "the helper/companion names (a_X, a_X_0, g_x_in_fi, a_is_0, a_is_1_0, a_not_x ...), sized so that the result stays <= 46 nodes; "
        "plus a rejection stream (blackbox, x constant, blackbox-typed node, undriven buf). Per case ALL 4^|inputs| (value, X-flag) "
        "input patterns are simulated in Coq. non-trivial = at least one multi-input gate with a gate or constant in its fan-in "
        "or >= 3 gates; distinct = canonical input + node order")
EXPLANATION = ("Kleene soundness of the dual-rail gadgets proved for all gate types and arities over regenerated gate-type table; "
               "model tied to tx.ternary by correspondence; property decided per case by exhaustive certified simulation")
SHARD = 12
HASHSEEDS = {"quick": [0, 1], "thorough": [0, 1, 2, 3]}

STRESS = ["a", "b", "g", "a_X", "b_X", "a_X_0", "g_X", "g_x_in_fi", "g_x_in_fi_0", "g_0_not_in_fi", "g_1_not_in_fi", "a_is_0", "a_is_1",
          "a_is_0_0", "a_is_1_0", "b_is_0", "b_is_1", "a_not_x", "b_not_x", "a_not_x_0", "a_X_is_0", "a_X_X", "g_X_X", "h", "h_X", "a_is_0_1"]


def est_size(d):
    n = 2 * len(d["nodes"])
    for _, t, _, fi in d["nodes"]:
        if t in ("and", "nand"):
            n += 2 + len(fi)
        elif t in ("or", "nor"):
            n += 2 + 2 * len(fi)
    return n


def gen_valid(rng, tier):
    while True:
        n_in = rng.choice([1, 2, 2, 3, 3, 3, 4, 4, 5] if tier == "thorough" else [1, 2, 2, 3, 3, 3, 4, 4])
        n_gate = rng.randint(1, 8)
        names = None
        if rng.random() < 0.35:
            pool = STRESS[:]
            rng.shuffle(pool)
            if rng.random() < 0.5:      # keep the short names first: they become inputs, the colliding names gates
                pool.sort(key=len)
                k = rng.randint(2, 5)
                head, tail = pool[:k], pool[k:]
                rng.shuffle(tail)
                pool = head + tail
            names = lambda i, pool=pool: pool[i] if i < len(pool) else f"n{i}"
        types = None
        r = rng.random()
        if r < 0.2:
            types = ["and", "nand", "or", "nor"]
        elif r < 0.3:
            types = ["xor", "xnor", "buf", "not", "and", "nor"]
        d = lib.rand_dag(rng, n_in, n_gate, types=types, max_fanin=4, p_const=0.3, names=names)
        if est_size(d) > 46 or len(d["nodes"]) > 13:
            continue
        if rng.random() < 0.6:
            d = lib.shuffle_nodes(rng, d)
        return {"kind": "valid", "circuit": d}


def gen_reject(rng):
    d = lib.rand_dag(rng, rng.randint(1, 3), rng.randint(1, 4), max_fanin=3, p_const=0.2)
    k = rng.choice(["bb", "x", "bbtype", "undriven"])
    if k == "bb":
        d = lib.add_flop(rng, d)
    elif k == "x":
        d["nodes"].append(["kx", "x", False, []])
        d["nodes"].append(["gx", "and", True, ["kx", d["nodes"][0][0]]])
    elif k == "bbtype":
        d["nodes"].append(["pin", rng.choice(["bb_input", "bb_output"]), False, []])
    else:
        d["nodes"].append(["ub", rng.choice(["buf", "not"]), True, []])
    if rng.random() < 0.5:
        d = lib.shuffle_nodes(rng, d)
    return {"kind": "reject:" + k, "circuit": d}


def generate(rng, tier):
    n = 110 if tier == "quick" else 150
    return [gen_valid(rng, tier) for _ in range(n)] + [gen_reject(rng) for _ in range(max(8, n // 12))]


def impl(case):
    import circuitgraph as cg
    c = lib.build_circuit(case["circuit"])
    before = lib.dump_circuit(c)
    # iteration orders that decide the uid suffixes of helper nodes, recorded right before the call in this process
    nodes = list(c.graph.nodes)
    fos = [[n, list(c.fanin(n))] for n in nodes]
    try:
        t, m = cg.tx.ternary(c)
    except Exception as e:
        return {"nodes": nodes, "fos": fos, "exc": type(e).__name__}
    return {"nodes": nodes, "fos": fos, "out": lib.dump_circuit(t), "mapping": sorted(m.items()),
            "arg_unchanged": lib.dump_circuit(c) == before}


def to_coq(case, obs):
    fos = cl("(%s,%s)" % (cs(n), csl(fi)) for n, fi in obs["fos"])
    if "exc" in obs:
        e = obs["exc"] if obs["exc"] in ("ValueError", "KeyError", "IndexError", "StopIteration", "NotImplementedError") else "OtherError"
        r = f"(Raise {e})"
    else:
        r = "(Ok (%s,%s))" % (ccirc(obs["out"]), cl("(%s,%s)" % (cs(k), cs(v)) for k, v in obs["mapping"]))
    return f"CTern {ccirc(case['circuit'])} {csl(obs['nodes'])} {fos} {r}"


def nontrivial(case, obs):
    if case["kind"] != "valid" or "out" not in obs:
        return False
    nodes = case["circuit"]["nodes"]
    ty = {n[0]: n[1] for n in nodes}
    gates = [n for n in nodes if n[1] in lib.GATES]
    deep = any(n[1] in lib.MULTI and any(ty[f] != "input" for f in n[3]) for n in nodes)
    return deep or len(gates) >= 3


def classify(case, obs):
    out = [case["kind"] + (":exc=" + obs["exc"] if "exc" in obs else "")]
    if case["kind"] == "valid":
        for n, t, o, fi in case["circuit"]["nodes"]:
            if t in lib.GATES:
                out.append(f"gate:{t}/{len(fi)}")
            elif t in ("0", "1"):
                out.append("const:" + t)
        out.append("inputs:%d" % len(lib.inputs_of(case["circuit"])))
        if "out" in obs:
            out.append("result_nodes:%d" % (len(obs["out"]["nodes"]) // 10 * 10))
            if any(v != k + "_X" for k, v in obs["mapping"]):
                out.append("companion_renamed_by_uid")
            if any(n[0][-1].isdigit() and ("_is_" in n[0] or "_not_x" in n[0] or "_in_fi" in n[0]) and n[0][-2] == "_" and not n[0].endswith(("_is_0", "_is_1"))
                   for n in obs["out"]["nodes"]):
                out.append("helper_renamed_by_uid")
    return out


def finding_signature(case, obs):
    return None


def mutate_case(rng, case):
    return gen_valid(rng, "quick")


CLAIMED = True
LEVEL_TEXT = ("Theorem C10_ternary (all lint-clean circuits with a closed graph, all gate types and arities, cyclic included, all recorded "
              "node and fan-in orders, all consistent valuations): whenever the model of tx.ternary returns (R, mapping), R contains c "
              "unchanged, every node has its companion gadget and every consistent binary valuation of R reads as a Kleene-consistent "
              "valuation of c (mapping[n]=1 exactly where Kleene evaluation gives X, the Kleene value at n elsewhere); on acyclic c a "
              "companion at 0 means the node has its value under every completion of the X inputs. Proved through an invariant of the "
              "sequential construction incl. uid freshness and a string lemma that helper names never equal companion names; the gate "
              "types of the gadgets are regenerated from tx.ternary on every run and proved equal to the documented ones; the input set of R "
              "is proved to be inputs(c) + their companions. Not proved: lint_clean R (C10_ternary_lint_full) - decided per generated "
              "case. The model is tied to "
              "tx.ternary by correspondence incl. recorded set orders; the property itself is additionally decided per case by exhaustive "
              "certified simulation of all 4^|inputs| patterns in Coq.")
LEVEL_NOTE = ("Trusted: Coq kernel + vm_compute, std++, translator skeleton for tx.ternary (names/wiring/flags/order compared textually, "
              "fail closed; gate types are a proved table), harness canonicalisation. Not modelled: name checks of Circuit.add and arity "
              "checks of connect (cannot fire for API-built circuits).")
TECHNIQUE = "Coq proof (gadget structure => Kleene simulation, all arities) + regenerated gate-type table + vm_compute correspondence and exhaustive simulation"
