"""C10: the ternary encoding (tx.ternary) computes Kleene three-valued simulation."""
import json

import lib
from lib import cs, cl, csl, ccirc

ID = "C10"
RUN_MODULE = "Run.Run_C10"
GEN_FILES = ["Gen_tern.v"]
RULE = ("random lint-clean blackbox-free acyclic circuits (1-5 inputs, 1-8 gates of all 8 gate types, fan-in 1-4, constants 0/1, "
        "outputs on inputs/gates), node insertion order shuffled (gates before their fan-in included), name pools that collide with "
        "the helper/companion names (a_X, a_X_0, g_x_in_fi, a_is_0, a_is_1_0, a_not_x ...), sized so that the result stays <= 46 nodes; "
        "plus a rejection stream (blackbox, x constant, blackbox-typed node, undriven buf); plus two-call histories on ONE Circuit "
        "object (call; then edit c in place [add a gate, also under a name equal to a companion/helper name of the first encoding; retype a "
        "gate; toggle an output] or edit the first result [tie a companion to 0 as the library's test does, retype, add, remove]; call "
        "again): the SECOND result is judged against the circuit as it is at that call and must share no object with the first result "
        "or c. Per case ALL 4^|inputs| (value, X-flag) "
        "input patterns are simulated in Coq. non-trivial = at least one multi-input gate with a gate or constant in its fan-in "
        "or >= 3 gates; distinct = canonical input + node order")
EXPLANATION = ("Kleene soundness of the dual-rail gadgets proved for all gate types and arities over regenerated gate-type table; "
               "model tied to tx.ternary by correspondence; property decided per case by exhaustive certified simulation")
SHARD = 12
HASHSEEDS = {"quick": [0, 1], "thorough": [0, 1, 2, 3]}

STRESS = ["a", "b", "g", "a_X", "b_X", "a_X_0", "g_X", "g_x_in_fi", "g_x_in_fi_0", "g_0_not_in_fi", "g_1_not_in_fi", "a_is_0", "a_is_1",
          "a_is_0_0", "a_is_1_0", "b_is_0", "b_is_1", "a_not_x", "b_not_x", "a_not_x_0", "a_X_is_0", "a_X_X", "g_X_X", "h", "h_X", "a_is_0_1"]


def est_size(d):
    n = 2 * len(d["nodes"])
    for _, t, _, fi in d["nodes"]:
        if t in ("and", "nand"):
            n += 2 + len(fi)
        elif t in ("or", "nor"):
            n += 2 + 2 * len(fi)
    return n


def gen_valid(rng, tier):
    while True:
        n_in = rng.choice([1, 2, 2, 3, 3, 3, 4, 4, 5] if tier == "thorough" else [1, 2, 2, 3, 3, 3, 4, 4])
        n_gate = rng.randint(1, 8)
        names = None
        if rng.random() < 0.35:
            pool = STRESS[:]
            rng.shuffle(pool)
            if rng.random() < 0.5:      # keep the short names first: they become inputs, the colliding names gates
                pool.sort(key=len)
                k = rng.randint(2, 5)
                head, tail = pool[:k], pool[k:]
                rng.shuffle(tail)
                pool = head + tail
            names = lambda i, pool=pool: pool[i] if i < len(pool) else f"n{i}"
        types = None
        r = rng.random()
        if r < 0.2:
            types = ["and", "nand", "or", "nor"]
        elif r < 0.3:
            types = ["xor", "xnor", "buf", "not", "and", "nor"]
        d = lib.rand_dag(rng, n_in, n_gate, types=types, max_fanin=4, p_const=0.3, names=names)
        if est_size(d) > 46 or len(d["nodes"]) > 13:
            continue
        if rng.random() < 0.6:
            d = lib.shuffle_nodes(rng, d)
        return {"kind": "valid", "circuit": d}


def gen_reject(rng):
    d = lib.rand_dag(rng, rng.randint(1, 3), rng.randint(1, 4), max_fanin=3, p_const=0.2)
    k = rng.choice(["bb", "x", "bbtype", "undriven"])
    if k == "bb":
        d = lib.add_flop(rng, d)
    elif k == "x":
        d["nodes"].append(["kx", "x", False, []])
        d["nodes"].append(["gx", "and", True, ["kx", d["nodes"][0][0]]])
    elif k == "bbtype":
        d["nodes"].append(["pin", rng.choice(["bb_input", "bb_output"]), False, []])
    else:
        d["nodes"].append(["ub", rng.choice(["buf", "not"]), True, []])
    if rng.random() < 0.5:
        d = lib.shuffle_nodes(rng, d)
    return {"kind": "reject:" + k, "circuit": d}


SWAP = {"and": ["nand", "or", "nor", "xor"], "nand": ["and", "or", "xnor"], "or": ["nor", "and", "xor"], "nor": ["or", "nand", "xnor"],
        "xor": ["xnor", "and", "or"], "xnor": ["xor", "nand", "nor"], "buf": ["not"], "not": ["buf"]}


def gen_history(rng, tier):
    base = gen_valid(rng, tier)
    d = base["circuit"]
    while est_size(d) > 38 or len(d["nodes"]) > 11:
        base = gen_valid(rng, tier)
        d = base["circuit"]
    names = [n[0] for n in d["nodes"]]
    gates = [n for n in d["nodes"] if n[1] in lib.GATES]
    ins = lib.inputs_of(d)
    r = rng.random()
    if r < 0.55:
        op = rng.choice(["add_gate", "add_gate", "add_gate_colliding", "retype", "toggle_output"])
        if op == "retype" and not gates:
            op = "add_gate"
        if op in ("add_gate", "add_gate_colliding"):
            if op == "add_gate_colliding":      # the name the first encoding used for a companion or helper node
                base_n = rng.choice(names)
                new = base_n + rng.choice(["_X", "_is_0", "_is_1", "_not_x", "_x_in_fi", "_0_not_in_fi", "_1_not_in_fi"])
            else:
                new = "hx"
            while new in names:
                new += "q"
            ty = rng.choice(lib.MULTI + ["not", "buf"])
            k = 1 if ty in lib.SINGLE else rng.randint(2, min(3, len(names))) if len(names) >= 2 else 1
            edit = {"on": "c", "op": "add_gate", "name": new, "type": ty, "fanin": sorted(rng.sample(names, k)), "output": True}
        elif op == "retype":
            g = rng.choice(gates)
            edit = {"on": "c", "op": "retype", "name": g[0], "type": rng.choice(SWAP[g[1]])}
        else:
            n = rng.choice(d["nodes"])
            edit = {"on": "c", "op": "set_output", "name": n[0], "output": not n[2]}
    else:
        op = rng.choice(["tie_companion", "tie_companion", "retype_companion", "remove_companion", "add_node", "retype_original"])
        if op == "retype_original" and not gates:
            op = "tie_companion"
        if op == "tie_companion":
            edit = {"on": "result", "op": "set_type", "of": "companion", "name": rng.choice(ins), "type": "0"}
        elif op == "retype_companion":
            edit = {"on": "result", "op": "set_type", "of": "companion", "name": rng.choice(names), "type": rng.choice(["or", "and", "nor", "input"])}
        elif op == "remove_companion":
            edit = {"on": "result", "op": "remove", "of": "companion", "name": rng.choice(names)}
        elif op == "add_node":
            edit = {"on": "result", "op": "add", "name": "extra_in", "type": "input"}
        else:
            g = rng.choice(gates)
            edit = {"on": "result", "op": "set_type", "of": "node", "name": g[0], "type": rng.choice(SWAP[g[1]])}
    return {"kind": "history", "circuit": d, "edit": edit}


def generate(rng, tier):
    n = 90 if tier == "quick" else 150
    h = 30 if tier == "quick" else 60
    return ([gen_valid(rng, tier) for _ in range(n)] + [gen_reject(rng) for _ in range(max(8, n // 12))]
            + [gen_history(rng, tier) for _ in range(h)])


def _apply_edit(c, t1, m1, e):
    if e["on"] == "c":
        if e["op"] == "add_gate":
            c.add(e["name"], e["type"], fanin=e["fanin"], output=e["output"])
        elif e["op"] == "retype":
            c.set_type(e["name"], e["type"])
        else:
            c.set_output(e["name"], e["output"])
        return
    target = m1[e["name"]] if e.get("of") == "companion" else e["name"]
    if e["op"] == "set_type":
        if e["type"] in ("0", "input"):
            t1.disconnect(t1.fanin(target), target)
        t1.set_type(target, e["type"])
    elif e["op"] == "remove":
        t1.remove(target)
    else:
        t1.add(t1.uid(e["name"]), e["type"])


def _shares(t2, m2, t1, m1, c):
    """names of objects the second result shares with the first result or with the argument"""
    sh = []
    if t2 is t1 or t2 is c:
        sh.append("circuit")
    if t2.graph is t1.graph or t2.graph is c.graph:
        sh.append("graph")
    if m2 is m1:
        sh.append("mapping")
    if t2.blackboxes is t1.blackboxes or t2.blackboxes is c.blackboxes:
        sh.append("blackboxes")
    for g in (t1.graph, c.graph):
        if any(n in g.nodes and t2.graph.nodes[n] is g.nodes[n] for n in t2.graph.nodes):
            sh.append("node-attributes")
            break
    return sh


def impl_history(case):
    import circuitgraph as cg
    c = lib.build_circuit(case["circuit"])
    try:
        t1, m1 = cg.tx.ternary(c)
        first = {"out": lib.dump_circuit(t1), "mapping": sorted(m1.items())}
    except Exception as e:
        return {"first_exc": type(e).__name__, "c2": case["circuit"], "nodes": [], "fos": [], "exc": type(e).__name__, "shares": []}
    _apply_edit(c, t1, m1, case["edit"])
    c2 = lib.dump_circuit(c)
    nodes = list(c.graph.nodes)
    fos = [[n, list(c.fanin(n))] for n in nodes]
    try:
        t2, m2 = cg.tx.ternary(c)
    except Exception as e:
        return {"c2": c2, "nodes": nodes, "fos": fos, "exc": type(e).__name__, "shares": [], "first": first}
    return {"c2": c2, "nodes": nodes, "fos": fos, "out": lib.dump_circuit(t2), "mapping": sorted(m2.items()),
            "shares": _shares(t2, m2, t1, m1, c), "arg_unchanged": lib.dump_circuit(c) == c2, "first": first}


def impl(case):
    import circuitgraph as cg
    if case["kind"] == "history":
        return impl_history(case)
    c = lib.build_circuit(case["circuit"])
    before = lib.dump_circuit(c)
    # iteration orders that decide the uid suffixes of helper nodes, recorded right before the call in this process
    nodes = list(c.graph.nodes)
    fos = [[n, list(c.fanin(n))] for n in nodes]
    try:
        t, m = cg.tx.ternary(c)
    except Exception as e:
        return {"nodes": nodes, "fos": fos, "exc": type(e).__name__}
    return {"nodes": nodes, "fos": fos, "out": lib.dump_circuit(t), "mapping": sorted(m.items()),
            "arg_unchanged": lib.dump_circuit(c) == before}


def to_coq(case, obs):
    fos = cl("(%s,%s)" % (cs(n), csl(fi)) for n, fi in obs["fos"])
    if "exc" in obs:
        e = obs["exc"] if obs["exc"] in ("ValueError", "KeyError", "IndexError", "StopIteration", "NotImplementedError") else "OtherError"
        r = f"(Raise {e})"
    else:
        r = "(Ok (%s,%s))" % (ccirc(obs["out"]), cl("(%s,%s)" % (cs(k), cs(v)) for k, v in obs["mapping"]))
    if case["kind"] == "history":
        return f"CHist {ccirc(obs['c2'])} {csl(obs['nodes'])} {fos} {r} {lib.cb(not obs['shares'])}"
    return f"CTern {ccirc(case['circuit'])} {csl(obs['nodes'])} {fos} {r}"


def nontrivial(case, obs):
    if case["kind"] == "history":
        return "out" in obs and len(case["circuit"]["nodes"]) >= 3
    if case["kind"] != "valid" or "out" not in obs:
        return False
    nodes = case["circuit"]["nodes"]
    ty = {n[0]: n[1] for n in nodes}
    gates = [n for n in nodes if n[1] in lib.GATES]
    deep = any(n[1] in lib.MULTI and any(ty[f] != "input" for f in n[3]) for n in nodes)
    return deep or len(gates) >= 3


def classify(case, obs):
    out = [case["kind"] + (":exc=" + obs["exc"] if "exc" in obs else "")]
    if case["kind"] == "history":
        e = case["edit"]
        out.append("history:" + e["on"] + ":" + e["op"] + (":" + e["of"] if "of" in e else ""))
        if obs.get("shares"):
            out.append("history:shares:" + ",".join(obs["shares"]))
        return out
    if case["kind"] == "valid":
        for n, t, o, fi in case["circuit"]["nodes"]:
            if t in lib.GATES:
                out.append(f"gate:{t}/{len(fi)}")
            elif t in ("0", "1"):
                out.append("const:" + t)
        out.append("inputs:%d" % len(lib.inputs_of(case["circuit"])))
        if "out" in obs:
            out.append("result_nodes:%d" % (len(obs["out"]["nodes"]) // 10 * 10))
            if any(v != k + "_X" for k, v in obs["mapping"]):
                out.append("companion_renamed_by_uid")
            if any(n[0][-1].isdigit() and ("_is_" in n[0] or "_not_x" in n[0] or "_in_fi" in n[0]) and n[0][-2] == "_" and not n[0].endswith(("_is_0", "_is_1"))
                   for n in obs["out"]["nodes"]):
                out.append("helper_renamed_by_uid")
    return out


def finding_signature(case, obs):
    return None


def mutate_case(rng, case):
    return gen_history(rng, "quick") if case.get("kind") == "history" else gen_valid(rng, "quick")


CLAIMED = True
LEVEL_TEXT = ("Theorem C10_ternary (all lint-clean circuits with a closed graph, all gate types and arities, cyclic included, all recorded "
              "node and fan-in orders, all consistent valuations): whenever the model of tx.ternary returns (R, mapping), R contains c "
              "unchanged, every node has its companion gadget and every consistent binary valuation of R reads as a Kleene-consistent "
              "valuation of c (mapping[n]=1 exactly where Kleene evaluation gives X, the Kleene value at n elsewhere); on acyclic c a "
              "companion at 0 means the node has its value under every completion of the X inputs. Proved through an invariant of the "
              "sequential construction incl. uid freshness and a string lemma that helper names never equal companion names; the gate "
              "types of the gadgets are regenerated from tx.ternary on every run and proved equal to the documented ones; the input set of R "
              "is proved to be inputs(c) + their companions and R is proved lint-clean (C10_ternary_full: no clause is left partial). "
              "The model is tied to "
              "tx.ternary by correspondence incl. recorded set orders; the property itself is additionally decided per case by exhaustive "
              "certified simulation of all 4^|inputs| patterns in Coq.")
LEVEL_NOTE = ("Trusted: Coq kernel + vm_compute, std++, translator skeleton for tx.ternary (names/wiring/flags/order compared textually, "
              "fail closed; gate types are a proved table), harness canonicalisation. Not modelled: name checks of Circuit.add and arity "
              "checks of connect (cannot fire for API-built circuits).")
TECHNIQUE = "Coq proof (gadget structure => Kleene simulation, all arities) + regenerated gate-type table + vm_compute correspondence and exhaustive simulation"
