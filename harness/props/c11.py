"""C11: sensitivity analyses (tx.sensitization_transform, tx.sensitivity_transform, props.sensitivity / influence /
avg_sensitivity / sensitize) agree with their definitions."""
import json
import random
from fractions import Fraction

import lib
from lib import cs, cl, csl, cb, ccirc, cnodes, cnat

ID = "C11"
RUN_MODULE = "Run.Run_C11"
GEN_FILES = []
RULE = ("random lint-clean blackbox-free acyclic circuits (1-6 inputs, 1-8 gates of all 8 gate types, fan-in 1-3, constants 0/1, "
        "outputs on inputs and gates, possibly no output at all), plus crafted functionally constant nodes (and(a, not a), xor(a, buf a), gates on "
        "constants), every kind of node n (input, internal, output, constant, own endpoint), endpoint selections (None, "
        "a single name given as str, subsets of outputs, arbitrary node subsets, selections that do not contain n in their cone "
        "= rejection stream); three case kinds: sz (sensitization_transform + sensitize), sv (sensitivity_transform + "
        "sensitivity; all valuations of the <= 6 cone startpoints simulated on the recorded transform), inf (influence + "
        "avg_sensitivity, exact mode), multi (ONE circuit object: influence / avg_sensitivity with ns a list of 2-3 nodes with different "
        "cones -- every entry of the returned dict is judged --, then node by node as str, sensitivity / sensitize / transforms per "
        "node, the list query again; argument must be unchanged; then an in-place edit inside the cone of the first node (retype a gate, add / "
        "remove an edge) and sensitivity_transform / sensitivity / sensitize / influence on the same object again, judged against the EDITED "
        "circuit), mask family (n on a cone >= 2 levels deep whose middle node also feeds logic outside the cone, n masked by d and not d / "
        "a constant: sensitize must return None). non-trivial = n has >= 2 startpoints in its cone or a gate between n and an endpoint; "
        "distinct = canonical input")
EXPLANATION = ("transform models written through the verified API model and tied to tx.py by graph equality; the property is decided per "
               "case by brute force of the definitions (evalc on the original circuit) against certified simulation of the recorded "
               "transform circuits and the recorded return values; descending search, flipped-node and xor-compare lemmas proved")
SHARD = 27            # 416 quick evaluations -> 16 shards = one wave on 16 cores; loading the .vo files costs ~3 s per shard
HASHSEEDS = {"quick": [0, 1], "thorough": [0, 1, 2, 3]}
EXC = ("ValueError", "KeyError", "IndexError", "StopIteration", "NotImplementedError")


# ---------------------------------------------------------------- generators
def cone(d, roots):
    """names in the transitive fan-in of roots (roots included)"""
    fi = {n[0]: n[3] for n in d["nodes"]}
    seen, todo = set(), list(roots)
    while todo:
        x = todo.pop()
        if x in seen:
            continue
        seen.add(x)
        todo += fi[x]
    return seen


def cone_sp(d, n):
    ty = {x[0]: x[1] for x in d["nodes"]}
    return sorted(x for x in cone(d, [n]) if ty[x] == "input")


def craft_constant(rng, d):
    """append a functionally constant (but not structurally constant) node and possibly something behind it"""
    nodes = d["nodes"]
    names = {n[0] for n in nodes}
    ins = lib.inputs_of(d)
    a = rng.choice(ins)

    def fresh(b):
        k, nm = 0, b
        while nm in names:
            nm, k = f"{b}{k}", k + 1
        names.add(nm)
        return nm

    kind = rng.choice(["and_not", "xor_buf", "or_not", "const_gate", "masked"])
    if kind == "and_not":
        na = fresh("na"); nodes.append([na, "not", False, [a]])
        k = fresh("kz"); nodes.append([k, rng.choice(["and", "nor"]), True, [a, na]])
    elif kind == "or_not":
        na = fresh("na"); nodes.append([na, "not", False, [a]])
        k = fresh("kz"); nodes.append([k, rng.choice(["or", "nand", "xor"]), True, [a, na]])
    elif kind == "xor_buf":
        ba = fresh("ba"); nodes.append([ba, "buf", False, [a]])
        k = fresh("kz"); nodes.append([k, rng.choice(["xor", "xnor"]), True, [a, ba]])
    elif kind == "const_gate":
        t0 = fresh("t0"); nodes.append([t0, rng.choice(["0", "1"]), False, []])
        k = fresh("kz"); nodes.append([k, rng.choice(["and", "or", "nand", "nor"]), True, [a, t0]])
    else:
        t0 = fresh("t0"); nodes.append([t0, "0", False, []])
        m = fresh("mk"); nodes.append([m, "and", False, [a, t0]])
        k = fresh("kz"); nodes.append([k, "or", True, [m, rng.choice(ins)]] if len(ins) > 1 else [k, "buf", True, [m]])
    if rng.random() < 0.4:
        other = rng.choice([n[0] for n in nodes[:-1]])
        if other != k:
            nodes.append([fresh("hz"), rng.choice(["and", "or", "xor"]), True, [k, other]])
    return k


def gen_circuit(rng, tier, max_in):
    n_in = rng.choice([1, 2, 2, 3, 3, 3, 4, 4, 5, 6][:max_in + 4 if max_in < 6 else 10])
    n_in = min(n_in, max_in)
    n_gate = rng.randint(1, 7 if n_in <= 4 else 6)
    d = lib.rand_dag(rng, n_in, n_gate, max_fanin=3, p_const=0.25, p_out=0.35)
    special = None
    if rng.random() < 0.25:
        special = craft_constant(rng, d)
    if rng.random() < 0.5:
        d = lib.shuffle_nodes(rng, d)
    return d, special


def pick_node(rng, d, special):
    nodes = d["nodes"]
    r = rng.random()
    if special and r < 0.6:
        return special
    if r < 0.15:
        c = lib.inputs_of(d)
    elif r < 0.35:
        c = [n[0] for n in nodes if n[2]]
    elif r < 0.42:
        c = [n[0] for n in nodes if n[1] in ("0", "1")]
    else:
        c = [n[0] for n in nodes if n[1] in lib.GATES]
    return rng.choice(c or [n[0] for n in nodes])


def gen_sz(rng, tier):
    d, special = gen_circuit(rng, tier, 6)
    if len(d["nodes"]) > 13:
        return gen_sz(rng, tier)
    n = pick_node(rng, d, special)
    names = [x[0] for x in d["nodes"]]
    outs = [x[0] for x in d["nodes"] if x[2]]
    r = rng.random()
    as_str = False
    if r < 0.3:
        E = None
        if rng.random() < 0.08:              # no endpoint at all: `sat` must be constant 0
            for x in d["nodes"]:
                x[2] = False
    elif r < 0.45:
        E = [n]                                # n is its own (only) endpoint
        as_str = rng.random() < 0.5
    elif r < 0.7:
        down = [x for x in outs if n in cone(d, [x])]
        E = rng.sample(down, rng.randint(1, len(down))) if down else [rng.choice(names)]
    elif r < 0.9:
        down = [x for x in names if n in cone(d, [x])]
        E = rng.sample(down, rng.randint(1, min(3, len(down))))
        if rng.random() < 0.3:
            E = sorted(set(E) | {rng.choice(names)})
        rng.shuffle(E)
    else:
        E = rng.sample(names, rng.randint(1, min(3, len(names))))       # often not above n: rejection
        as_str = len(E) == 1 and rng.random() < 0.5
    return {"kind": "sz", "circuit": d, "n": n, "E": E, "as_str": as_str}


def gen_sv(rng, tier):
    big = rng.random() < (0.06 if tier == "quick" else 0.15)
    while True:
        d, special = gen_circuit(rng, tier, 6 if big else 4)
        n = pick_node(rng, d, special)
        m = len(cone_sp(d, n))
        k = len(cone(d, [n]))
        if m > 6 or k > 11 or (m >= 5 and k > 9):
            continue
        if big and m < 4 and rng.random() < 0.8:
            continue
        return {"kind": "sv", "circuit": d, "n": n}


def gen_inf(rng, tier):
    while True:
        d, special = gen_circuit(rng, tier, 6)
        n = pick_node(rng, d, special)
        if len(cone(d, [n])) > 12:
            continue
        return {"kind": "inf", "circuit": d, "n": n}


def gen_multi(rng, tier):
    """several nodes of ONE circuit object: influence / avg_sensitivity with `ns` a list of 2-3 nodes whose cones differ, then the
    same queries node by node (str), sensitivity / sensitize per node, and the list query once more (history dependence)"""
    while True:
        if rng.random() < 0.3:
            # the shape of a chain of growing cones: g=f(a,b), w=f(g,d), z=f(w,e)
            t = lambda: rng.choice(["and", "or", "xor", "nand", "nor", "xnor"])
            nodes = [[i, "input", False, []] for i in ("a", "b", "d", "e")]
            nodes += [["g", t(), False, ["a", "b"]], ["h", t(), rng.random() < 0.5, ["a", "b"]],
                      ["w", t(), True, ["g", "d"]], ["z", t(), True, ["w", "e"]]]
            d = {"name": "top", "nodes": nodes, "bbs": []}
            if rng.random() < 0.5:
                d = lib.shuffle_nodes(rng, d)
        else:
            d, _ = gen_circuit(rng, tier, 5)
        if len(d["nodes"]) > 12:
            continue
        cand = [x[0] for x in d["nodes"] if x[1] != "input" and 1 <= len(cone_sp(d, x[0])) <= 5 and len(cone(d, [x[0]])) <= 10]
        cones = {n: tuple(cone_sp(d, n)) for n in cand}
        if len(set(cones.values())) < 2:
            continue
        for _ in range(20):
            ns = rng.sample(cand, min(len(cand), rng.choice([2, 2, 3])))
            if len({cones[n] for n in ns}) >= 2 and len(cones[ns[0]]) <= 4:
                return {"kind": "multi", "circuit": d, "n": ns[0], "ns": ns, "edit": gen_edit(rng, d, ns[0])}


def gen_edit(rng, d, n0):
    """an in-place edit inside the cone of n0 that keeps the circuit lint-clean and acyclic: retype a gate, add or remove an edge"""
    by = {x[0]: x for x in d["nodes"]}
    cn = [x for x in cone(d, [n0]) if by[x][1] in lib.GATES]
    opts = []
    for g in cn:
        t, fi = by[g][1], by[g][3]
        if t in lib.MULTI:
            opts.append({"op": "retype", "node": g, "to": rng.choice([u for u in lib.MULTI if u != t])})
            if len(fi) >= 3:
                opts.append({"op": "disconnect", "u": rng.choice(fi), "v": g})
            down = {x[0] for x in d["nodes"] if g in cone(d, [x[0]])}            # nodes that g reaches (g included)
            srcs = [x[0] for x in d["nodes"] if x[0] not in down and x[0] not in fi and x[1] != "bb_output"]
            if srcs:
                opts.append({"op": "connect", "u": rng.choice(srcs), "v": g})
        else:
            opts.append({"op": "retype", "node": g, "to": "not" if t == "buf" else "buf"})
    return rng.choice(opts) if opts else None


def gen_mask(rng, tier):
    """C11-s6 family: n on top of a cone >= 2 levels deep, a middle cone node y also feeds logic OUTSIDE the cone, the drivers of y are
    read only inside the cone; n reaches the outputs only through a masked gate (d and not d / constant 0) in most cases, so the right
    answer of sensitize is None while the side logic reconverges on the same inputs"""
    g2 = lambda: rng.choice(["and", "or", "nand", "nor", "xor", "xnor"])
    ins = ["a", "b", "d"] + (["e"] if rng.random() < 0.4 else [])
    nodes = [[i, "input", False, []] for i in ins]
    depth = rng.choice([2, 2, 3, 4])
    prev = "x0"
    nodes.append(["x0", g2(), False, ["a", "b"]])
    mids = []
    for k in range(1, depth):
        y = f"y{k}"
        nodes.append([y, g2(), False, [prev, rng.choice(ins)]])
        mids.append(y)
        prev = y
    nodes.append(["n", g2(), False, [prev, rng.choice(ins)]])
    r = rng.random()
    if r < 0.5:
        nodes.append(["nd", "not", False, ["d"]])
        nodes.append(["o1", "and", True, ["n", "d", "nd"]])                    # masked: d and not d
    elif r < 0.75:
        nodes.append(["t0", "0", False, []])
        nodes.append(["o1", rng.choice(["and", "nor"]) if False else "and", True, ["n", "t0"]])   # masked by a constant
    else:
        nodes.append(["o1", g2(), True, ["n", rng.choice(ins)]])                # not masked: a valuation must be found
    for y in rng.sample(mids, rng.randint(1, len(mids))):                       # the second load of a middle node, outside the cone of n
        nodes.append([f"o_{y}", rng.choice(["not", "buf"]), True, [y]] if rng.random() < 0.5
                     else [f"o_{y}", g2(), True, [y, rng.choice(ins)]])
    d = {"name": "top", "nodes": nodes, "bbs": []}
    if rng.random() < 0.5:
        d = lib.shuffle_nodes(rng, d)
    target = "n" if rng.random() < 0.7 else rng.choice(mids + ["x0"])
    return {"kind": "sz", "circuit": d, "n": target, "E": None, "as_str": False}


def generate(rng, tier):
    n = 50 if tier == "quick" else 150
    out = []
    for _ in range(n):
        out.append(gen_sz(rng, tier))
        out.append(gen_inf(rng, tier))
    for _ in range(n * 4 // 5):
        out.append(gen_sv(rng, tier))
    for _ in range(n // 2):
        out.append(gen_multi(rng, tier))
    for _ in range(n // 2):
        out.append(gen_mask(rng, tier))
    # fixed small shapes: power-of-two cone sizes 1, 2, 4 with a node of full sensitivity (top bit of the count is exercised);
    # they go first (largest first) so that the expensive shards start early
    rand_cases, out = out, []
    for m in (6, 5, 4, 3, 2, 1):
        ins = [f"i{j}" for j in range(m)]
        nodes = [[i, "input", False, []] for i in ins]
        nodes.append(["g", "xor" if m > 1 else "not", True, ins])
        nodes2 = json.loads(json.dumps(nodes))
        nodes2[-1][1] = "and" if m > 1 else "buf"
        if tier != "quick" or m != 5:
            out.append({"kind": "sv", "circuit": {"name": "top", "nodes": nodes, "bbs": []}, "n": "g"})
        if tier != "quick" or m != 6:
            out.append({"kind": "sv", "circuit": {"name": "top", "nodes": nodes2, "bbs": []}, "n": "g"})
        out.append({"kind": "inf", "circuit": {"name": "top", "nodes": nodes2, "bbs": []}, "n": "g"})
    # spread the (expensive) fixed shapes evenly so that no shard gets more than one or two of them
    stride = max(1, len(rand_cases) // len(out))
    mixed = []
    fixed = list(out)
    for k, c in enumerate(rand_cases):
        if k % stride == 0 and fixed:
            mixed.append(fixed.pop(0))
        mixed.append(c)
    allc = mixed + fixed
    random.Random(len(allc)).shuffle(allc)      # heavy kinds (sv with many startpoints, multi) spread over all shards
    return allc


# ---------------------------------------------------------------- implementation driver
def topo_dump(c):
    import networkx as nx
    d = lib.dump_circuit(c)
    by = {n[0]: n for n in d["nodes"]}
    d["nodes"] = [by[n] for n in nx.lexicographical_topological_sort(c.graph)]
    return d


def exc_name(e):
    return type(e).__name__


def frac(x):
    f = Fraction(x)
    return [f.numerator, f.denominator]


def apply_edit(c, edit):
    """in-place edit of the live circuit object between two queries (C11-s5 class: stale caches keyed by object identity)"""
    if edit["op"] == "retype":
        c.set_type(edit["node"], edit["to"])
    elif edit["op"] == "connect":
        c.connect(edit["u"], edit["v"])
    elif edit["op"] == "disconnect":
        c.disconnect(edit["u"], edit["v"])


def impl(case):
    import circuitgraph as cg
    if case["kind"] == "skip":
        return {"skip": True}
    c = lib.build_circuit(case["circuit"])
    before = lib.dump_circuit(c)
    obs = observe(cg, c, case)
    obs["arg_unchanged"] = lib.dump_circuit(c) == before
    if case["kind"] == "multi" and case.get("edit"):
        apply_edit(c, case["edit"])
        edited = lib.dump_circuit(c)
        n0 = case["ns"][0]
        after = {"circuit": edited}
        for kind in ("sv", "sz", "inf"):
            after[kind] = observe(cg, c, {"kind": kind, "n": n0, "E": None})
        after["arg_unchanged"] = lib.dump_circuit(c) == edited
        obs["after"] = after
    return obs


def observe(cg, c, case):
    """run the queries of one case kind on the live circuit object c"""
    n = case["n"]
    obs = {}
    if case["kind"] == "sz":
        E = case["E"]
        arg = None if E is None else (E[0] if case.get("as_str") else list(E))
        obs["eord"] = None if E is None else list({arg} if isinstance(arg, str) else set(arg))
        try:
            t = cg.tx.sensitization_transform(c, n, arg)
            obs["T"] = topo_dump(t)
        except Exception as e:
            obs["T_exc"] = exc_name(e)
        if E is None:
            try:
                r = cg.props.sensitize(c, n)
                obs["sensitize"] = None if r is None else sorted([k, bool(v)] for k, v in r.items())
            except Exception as e:
                obs["sensitize_exc"] = exc_name(e)
    elif case["kind"] == "multi":
        ns = case["ns"]
        obs["sps"] = {m: list(c.startpoints(m)) for m in ns}

        def infl(arg):
            try:
                r = cg.props.influence(c, arg, approx=False)
                if isinstance(arg, str):
                    r = {arg: r}
                return {"ok": {m: sorted([k, frac(v)] for k, v in r[m].items()) for m in r}}
            except Exception as e:
                return {"exc": exc_name(e)}

        def avg(arg):
            try:
                r = cg.props.avg_sensitivity(c, arg, approx=False)
                if isinstance(arg, str):
                    r = {arg: r}
                return {"ok": {m: frac(v) for m, v in r.items()}}
            except Exception as e:
                return {"exc": exc_name(e)}

        calls = [["list", infl(list(ns)), avg(list(ns))]]
        for m in ns:
            calls.append(["str:" + m, infl(m), avg(m)])
        sens = {}
        for m in ns:
            try:
                sens[m] = {"ok": int(cg.props.sensitivity(c, m))}
            except Exception as e:
                sens[m] = {"exc": exc_name(e)}
            try:
                cg.props.sensitize(c, m)
                cg.tx.sensitization_transform(c, m, [m])
            except Exception:
                pass
        calls.append(["list-again", infl(list(ns)), avg(list(ns))])
        obs["calls"] = calls
        obs["sens"] = sens
    elif case["kind"] == "sv":
        sp = list(c.startpoints(n))
        obs["sp"] = sp
        try:
            t = cg.tx.sensitivity_transform(c, n)
            obs["T"] = topo_dump(t)
        except Exception as e:
            obs["T_exc"] = exc_name(e)
        m = len(sp)
        if m:
            obs["pc"] = lib.dump_circuit(cg.logic.popcount(m))
            obs["clog2"] = [cg.utils.clog2(m), cg.utils.clog2(m + 1)]
            obs["bins"] = [[bool(b) for b in cg.utils.int_to_bin(k, cg.utils.clog2(m), True)] for k in range(m + 1)]
        try:
            obs["sens"] = int(cg.props.sensitivity(c, n))
        except Exception as e:
            obs["sens_exc"] = exc_name(e)
    else:
        obs["sp"] = list(c.startpoints(n))
        try:
            r = cg.props.influence(c, n, approx=False)
            obs["infl"] = sorted([k, frac(v)] for k, v in r.items())
        except Exception as e:
            obs["infl_exc"] = exc_name(e)
        try:
            obs["avg"] = frac(cg.props.avg_sensitivity(c, n, approx=False))
        except Exception as e:
            obs["avg_exc"] = exc_name(e)
    return obs


# ---------------------------------------------------------------- Coq printing
def cexc(e):
    return "(Raise %s)" % (e if e in EXC else "OtherError")


def cres(obs, key, f):
    if key in obs:
        return "(Ok %s)" % f(obs[key])
    return cexc(obs[key + "_exc"])


def cq(p):
    return "(mq %d %d)" % (p[0], p[1])


def ctrans(d):
    return "(%s,%s)" % (cs(d["name"]), cnodes(d["nodes"]))


def to_coq(case, obs):
    if case["kind"] == "skip":
        return None
    C = ccirc(case["circuit"])
    if not obs.get("arg_unchanged", False):
        return f"CMutated {C}"
    t = term(case, obs, C)
    if case["kind"] == "multi" and "after" in obs:
        # the same node queried again after the in-place edit: judged against the EDITED circuit
        a = obs["after"]
        C2 = ccirc(a["circuit"])
        n0 = case["ns"][0]
        if not a.get("arg_unchanged", False):
            extra = [f"CMutated {C2}"]
        else:
            extra = [term({"kind": k, "n": n0, "E": None, "circuit": a["circuit"]}, a[k], C2) for k in ("sv", "sz", "inf")]
        t = t[:-1] + ";" + ";".join(extra) + "]"
    return t


def term(case, obs, C):
    n = cs(case["n"])
    if case["kind"] == "sz":
        E = "None" if case["E"] is None else "(Some %s)" % csl(obs["eord"])
        T = cres(obs, "T", ctrans)
        if case["E"] is None:
            def cv(r):
                return "None" if r is None else "(Some %s)" % cl("(%s,%s)" % (cs(k), cb(v)) for k, v in r)
            S = "(Some %s)" % cres(obs, "sensitize", cv)
        else:
            S = "None"
        return f"CSz {C} {n} {E} {T} {S}"
    if case["kind"] == "multi":
        items = []
        for label, ir, ar in obs["calls"]:
            nodes = case["ns"] if not label.startswith("str:") else [label[4:]]
            for m in nodes:
                if "ok" in ir and m in ir["ok"]:
                    I = "(Ok %s)" % cl("(%s,%s)" % (cs(k), cq(v)) for k, v in ir["ok"][m])
                elif "ok" in ir:
                    I = "(Raise KeyError)"          # the node is missing from the returned dict
                else:
                    I = cexc(ir["exc"])
                if "ok" in ar and m in ar["ok"]:
                    A = "(Ok %s)" % cq(ar["ok"][m])
                elif "ok" in ar:
                    A = "(Raise KeyError)"
                else:
                    A = cexc(ar["exc"])
                items.append(f"CInf {C} {cs(m)} {csl(obs['sps'][m])} {I} {A}")
        for m in case["ns"]:
            r = obs["sens"][m]
            S = "(Ok %s)" % cnat(r["ok"]) if "ok" in r else cexc(r["exc"])
            items.append(f"CSens {C} {cs(m)} {csl(obs['sps'][m])} {S}")
        items = list(dict.fromkeys(items))      # equal answers of the repeated / str / list calls are evaluated once
        return "CBatch %s" % cl(items)
    if case["kind"] == "sv":
        sp = obs["sp"]
        pc = ccirc(obs["pc"]) if "pc" in obs else '(mk "popcount" [] [])'
        T = cres(obs, "T", lambda d: cnodes(d["nodes"]))
        cl2 = "(%s,%s)" % tuple(cnat(x) for x in obs.get("clog2", [0, 0]))
        bins = cl(cl(cb(b) for b in row) for row in obs.get("bins", []))
        S = cres(obs, "sens", cnat)
        return f"CSv {C} {n} {csl(sp)} {pc} {T} {cl2} {bins} {S}"
    I = cres(obs, "infl", lambda r: cl("(%s,%s)" % (cs(k), cq(v)) for k, v in r))
    A = cres(obs, "avg", cq)
    return f"CInf {C} {n} {csl(obs['sp'])} {I} {A}"


# ---------------------------------------------------------------- evidence statistics
def nontrivial(case, obs):
    d = case["circuit"]
    n = case["n"]
    if len(cone_sp(d, n)) >= 2:
        return True
    if case["kind"] == "sz" and "T" in obs:
        return any(n in x[3] for x in d["nodes"])
    return False


def classify(case, obs):
    d = case["circuit"]
    n = case["n"]
    ty = {x[0]: x for x in d["nodes"]}
    out = [case["kind"], "%s:cone_sp=%d" % (case["kind"], len(cone_sp(d, n)))]
    t = ty[n][1]
    out.append("n:" + ("input" if t == "input" else "const" if t in ("0", "1") else "output" if ty[n][2] else "internal"))
    if case["kind"] == "sz":
        E = case["E"]
        out.append("E:none" if E is None else "E:self" if E == [n] else "E:%d" % len(E))
        if E is None and not any(x[2] for x in d["nodes"]):
            out.append("no-endpoint")
        if "T_exc" in obs:
            out.append("sz:exc=" + obs["T_exc"])
        if "sensitize" in obs:
            out.append("sensitize:" + ("none" if obs["sensitize"] is None else "found"))
    elif case["kind"] == "multi":
        out.append("multi:%d-nodes" % len(case["ns"]))
        out.append("multi:distinct-cones=%d" % len({tuple(cone_sp(d, m)) for m in case["ns"]}))
    elif case["kind"] == "sv":
        if "sens" in obs:
            out.append("sens=%d" % obs["sens"])
            if obs["sens"] == 0:
                out.append("functionally-constant")
        else:
            out.append("sv:exc=" + obs.get("sens_exc", "?"))
        if "T" in obs:
            out.append("T_nodes:%d" % (len(obs["T"]["nodes"]) // 25 * 25))
    else:
        if "infl" in obs:
            out.append("infl:zero" if all(v[0] == 0 for _, v in obs["infl"]) else "infl:nonzero")
        else:
            out.append("inf:exc=" + obs.get("infl_exc", "?"))
    return out


def finding_signature(case, obs):
    return None


WIDEN = 1            # widened search: one more generated batch (on 4 hash seeds) + the budgeted neighbourhood below
_MUTATE_BUDGET = [60]


def mutate_case(rng, case):
    """A fresh case of the same kind.  The framework asks for 40 neighbours per disagreeing (case, hash seed); a change of the
    transform's graph that keeps its function makes every case disagree, so the neighbourhood is budgeted: after 60 real
    neighbours the remaining requests are answered with a marker that is skipped (to_coq -> None)."""
    if _MUTATE_BUDGET[0] <= 0:
        return {"kind": "skip"}
    _MUTATE_BUDGET[0] -= 1
    return {"sz": gen_sz, "sv": gen_sv, "inf": gen_inf, "multi": gen_multi}.get(case.get("kind"), gen_sz)(rng, "quick")


CLAIMED = True
LEVEL_TEXT = ("Theorems (Coq, closed under the global context), about the MODEL FUNCTIONS written through the API model, for all inputs: "
              "(1) sensitization_spec: for every accepted sensitization_transform(c, n, endpoints) on a combinational blackbox-free circuit, "
              "under every consistent valuation of the result sat = 1 iff inverting n changes a selected endpoint; the first copy carries evalc, "
              "the second the circuit with n inverted; (2) sensitivity_transform_spec(_popcount): for every accepted sensitivity_transform(c, n), "
              "dif_out_s = 1 iff flipping s flips n and the sen_out bits are the binary digits of the number of such s -- with the popcount circuit "
              "of C13's model no assumption about popcount is left (its correctness, input interface and output width are derived); (3) the "
              "descending search of props.sensitivity over the clog2/int_to_bin encoding returns the maximum for all m (incl. the unconstrained top "
              "bit at m = 2^w), and composed with (2) and the proved certificate of the sensitivity circuit it returns the sensitivity; (4) influence, avg_sensitivity, sensitize (model functions, all "
              "inputs) meet their definitions relative to exact model counting / a sound and complete solver only -- the certificate of the "
              "model's sensitization circuit (closed, acyclic, free nodes = startpoints) is proved. (1) and (2) are proved by showing that the model functions always "
              "produce the shapes sens_shape / sv_shape (on the add_subcircuit / add inversions of the C04/C06 development) and that every graph of "
              "that shape has the property; sound boolean shape checkers also run on every recorded implementation output, which is compared with "
              "the model output, and the recorded popcount circuit is compared with C13's model. Independently the Coq oracle brute-forces the "
              "definitions on the original circuit and compares them with a certified simulation of the recorded circuits under every valuation "
              "and with every recorded return value.")
LEVEL_NOTE = ("No _partial theorem is left: the certificates of both transform circuits (closed, acyclic, free nodes = the tied inputs) are "
              "proved for all inputs (the popcount part from C13's popcount_combinational), so (3) and (4) hold for the model functions with only "
              "the external solver / counter as hypotheses (not axioms): a SAT solver sound and complete on the queries made (C01; satisfiable: "
              "brute force, theorem solver_exists) and exact model counting projected on startpoints (C08; satisfiable: counter_exists). "
              "Trusted: Coq kernel + vm_compute, std++, the API model of Base/Api.v, C13's popcount model (tied to the recorded popcount circuit "
              "per case), harness canonicalisation (topologically sorted dumps, Fraction(float)), pure-Python pysat stand-in (its answers are "
              "re-checked by the oracle).")
TECHNIQUE = "Coq proofs (model functions produce the shapes, shape theorems, search, props-level specs, certificates, C13 popcount) + graph-equality correspondence + vm_compute oracle of the definitions"
