"""C12: graph queries agree with their graph-theoretic definitions."""
import json

import lib
from lib import cs, cb, csl, cnodes, cnat, cl, cpairs

ID = "C12"
RUN_MODULE = "Run.Run_C12"
GEN_FILES = []
RULE = ("graphs of <= 16 nodes from shape classes (chain, in-tree, wide fan-out, diamond, diamond inside diamond, branch that is itself the "
        "meeting point, ladder, several components, single node, random DAG, flip-flop blackbox) plus cyclic variants (back edge, self loop); "
        "types assigned by in-degree (sources: inputs/constants/bb_output); node names one-letter, multi-character, or mixed so that long "
        "names are spelled with the one-letter names of other nodes; every function is called with a single node given as a str (incl. a "
        "startpoint for startpoints, an endpoint for endpoints) and with node lists; per graph a batch of queries: fanin/fanout/transitive_fanin/"
        "transitive_fanout/startpoints/endpoints on single nodes, node lists and the whole circuit, both depth functions on single nodes and "
        "lists, topo_sort, levelize, is_cyclic, reconvergent_fanout_nodes, kcuts(n, k) for k in 0..4 on acyclic graphs; non-trivial = at "
        "least 3 nodes and 2 edges; distinct = canonical input hash; plus query-edit-query histories on one Circuit object (a cycle closed by "
        "connect, opened by disconnect / remove, up to three phases, queries shuffled), every answer judged against the graph dumped at that call")
EXPLANATION = ("executable definitions proved equal to the path-based definitions (tfi/tfo, depth table, cycle test, topological checker, "
               "reconvergence, k-cut width and separation); models tied to circuit.py / props.levelize by correspondence on every shape class")
SHARD = 40
HASHSEEDS = {"quick": [0, 1], "thorough": [0, 1, 2]}

NAMES = "abcdefghijklmnopqrstuvwxyz"


# ------------------------------------------------------------------ shapes: (n, edges) on integer nodes
def chain(rng):
    n = rng.randint(2, 12)
    return n, [(i, i + 1) for i in range(n - 1)]


def in_tree(rng):
    n = rng.randint(3, 9)
    return n, [(i, (i - 1) // 2) for i in range(1, n)]          # leaves feed the root 0


def wide_fanout(rng):
    k = rng.randint(2, 6)
    e = [(0, i) for i in range(1, k + 1)]
    if rng.random() < 0.5:                                        # some branches re-join
        e += [(i, k + 1) for i in rng.sample(range(1, k + 1), rng.randint(2, k))]
        return k + 2, e
    return k + 1, e


def diamond(rng):
    e = [(0, 1), (0, 2), (1, 3), (2, 3)]
    if rng.random() < 0.5:
        e.append((3, 4)); return 5, e
    return 4, e


def nested_diamond(rng):
    # outer diamond 0 -> {1, 6} -> 7 whose branch 1 contains the inner diamond 1 -> {2, 3} -> 4 -> 5
    return 8, [(0, 1), (0, 6), (1, 2), (1, 3), (2, 4), (3, 4), (4, 5), (5, 7), (6, 7)]


def branch_is_meeting(rng):
    # g -> a -> b, g -> b  (b has no further fan-out), optionally with a tail
    e = [(0, 1), (1, 2), (0, 2)]
    if rng.random() < 0.4:
        e.append((2, 3)); return 4, e
    return 3, e


def ladder(rng):
    k = rng.randint(2, 4)
    e = []
    for i in range(k):
        e += [(2 * i, 2 * i + 2), (2 * i + 1, 2 * i + 3), (2 * i, 2 * i + 3)]
        if rng.random() < 0.5:
            e.append((2 * i + 1, 2 * i + 2))
    return 2 * k + 2, e


def single(rng):
    return 1, []


def random_dag(rng):
    n = rng.randint(3, 12)
    e = set()
    for v in range(1, n):
        for u in rng.sample(range(v), min(v, rng.choice([0, 1, 1, 2, 2, 3]))):
            e.add((u, v))
    return n, sorted(e)


SHAPES = [chain, in_tree, wide_fanout, diamond, nested_diamond, branch_is_meeting, ladder, single, random_dag, random_dag, random_dag]


def union(parts):
    n, e = 0, []
    for (m, ee) in parts:
        e += [(u + n, v + n) for u, v in ee]
        n += m
    return n, e


def make_names(rng, n):
    """node names: one-letter, multi-character, or a mix in which the longer names are spelled with the one-letter names of other
    nodes ("ab", "din" next to "a", "b", "d", "i", "n") -- a str argument must never be treated as an iterable of characters"""
    scheme = rng.choice(["letters", "multi", "mixed", "mixed"])
    if scheme == "letters" and n <= 26:
        names = list(NAMES[:n])
    elif scheme == "multi" or n > 26:
        style = rng.choice([lambda i: f"n{i}", lambda i: f"w_{i}", lambda i: f"sig{i}", lambda i: f"net_{NAMES[i % 26]}{i}"])
        names = [style(i) for i in range(n)]
    else:
        k = max(1, min(n - 1, rng.randint(2, 4))) if n > 1 else 0
        letters = rng.sample(NAMES[:8], k)
        names = list(letters)
        while len(names) < n:
            w = "".join(rng.choice(letters) for _ in range(rng.randint(2, 3))) if letters else "xy"
            if rng.random() < 0.25:
                w += rng.choice(["_o", "1", "q"])
            if w not in names:
                names.append(w)
    rng.shuffle(names)
    return names, scheme


def to_dump(rng, n, edges, flop=False):
    """types by in-degree; names shuffled so that name order is unrelated to topological order"""
    names, _ = make_names(rng, n)
    fi = {i: sorted({names[u] for u, v in edges if v == i}) for i in range(n)}
    has_fo = {u for u, v in edges}
    nodes = []
    for i in range(n):
        k = len(fi[i])
        if k == 0:
            t = rng.choice(["input"] * 6 + ["0", "1", "x"])
        elif k == 1:
            t = rng.choice(lib.SINGLE)
        else:
            t = rng.choice(lib.MULTI)
        nodes.append([names[i], t, (i not in has_fo) or rng.random() < 0.2, fi[i]])
    d = {"name": "top", "nodes": nodes, "bbs": []}
    if flop and n >= 2:
        d = lib.add_flop(rng, d)
    if rng.random() < 0.6:
        rng.shuffle(d["nodes"])
    return d


def make_cyclic(rng, n, edges):
    if n == 1 or rng.random() < 0.2:
        v = rng.randrange(n)
        return edges + [(v, v)]
    # back edge along an existing path, else any edge against the numbering
    fo = {}
    for u, v in edges:
        fo.setdefault(u, []).append(v)
    order = list(range(n)); rng.shuffle(order)
    for s in order:
        seen, todo = set(), [s]
        while todo:
            x = todo.pop()
            for y in fo.get(x, []):
                if y not in seen:
                    seen.add(y); todo.append(y)
        if seen:
            return edges + [(rng.choice(sorted(seen)), s)]
    return edges + [(0, 0)]


def pick_args(rng, names):
    k = rng.choice([1, 1, 2, 3])
    ns = rng.sample(names, min(k, len(names)))
    return ns[0] if len(ns) == 1 and rng.random() < 0.6 else ns       # a str or a list


def make_queries(rng, nodes, cyclic, kcuts=True, light=False):
    """a batch of queries for the graph given by dump rows `nodes`; `light` = the short batch used inside histories"""
    names = [x[0] for x in nodes]
    qs = []
    # cyclic graphs are in the property's domain for is_cyclic and the rejection by the depth functions / levelize / topo_sort only
    # (networkx ancestors(G, n) never contains n itself, so on a cycle it is not the set of proper ancestors)

    def a_str(pool=None):
        """a single node passed by NAME (str, not wrapped in a list); prefers multi-character names"""
        pool = [x for x in (pool or names)] or names
        longer = [x for x in pool if len(x) > 1]
        return rng.choice(longer) if longer and rng.random() < 0.8 else rng.choice(pool)
    sps = [x[0] for x in nodes if x[1] in ("input", "bb_output")]
    eps = [x[0] for x in nodes if x[2] or x[1] == "bb_input"]
    for fn in ("fanin", "fanout") + (() if cyclic else ("transitive_fanin", "transitive_fanout")):
        qs.append([fn, a_str()])
        if not light:
            qs.append([fn, pick_args(rng, names)])
    if not cyclic and not light:
        qs.append(["startpoints", a_str(sps)])            # the node itself is a startpoint
        qs.append(["startpoints", a_str()])
        qs.append(["startpoints", rng.choice([None, [], pick_args(rng, names)])])
        qs.append(["endpoints", a_str(eps)])              # the node itself is an endpoint
        qs.append(["endpoints", a_str()])
        qs.append(["endpoints", rng.choice([None, [], pick_args(rng, names)])])
    for fn in ("fanin_depth", "fanout_depth"):
        qs.append([fn, a_str()])
        qs.append([fn, pick_args(rng, names)])
    qs += [["topo_sort"], ["levelize"], ["is_cyclic"]] + ([] if cyclic else [["reconvergent"]])
    if kcuts and not cyclic and not light and len(names) <= 13:
        for _ in range(2):
            qs.append(["kcuts", rng.choice(names), rng.choice([0, 1, 2, 2, 3, 3, 4])])
    if light:
        rng.shuffle(qs)            # which query meets the edited graph first must not matter
    return qs


def gen_case(rng):
    r = rng.random()
    if r < 0.2:
        parts = [rng.choice(SHAPES)(rng) for _ in range(rng.randint(2, 3))]
        n, e = union(parts); shape = "components"
    else:
        f = rng.choice(SHAPES)
        n, e = f(rng); shape = f.__name__
    while n > 16:
        n, e = random_dag(rng); shape = "random_dag"
    cyclic = rng.random() < 0.15
    if cyclic:
        e = make_cyclic(rng, n, e)
    d = to_dump(rng, n, e, flop=(not cyclic and rng.random() < 0.15))
    qs = make_queries(rng, d["nodes"], cyclic)
    return {"circuit": d, "queries": qs, "shape": shape + ("+cycle" if cyclic else "")}


def descendants(nodes, s):
    fo = {}
    for n in nodes:
        for f in n[3]:
            fo.setdefault(f, []).append(n[0])
    seen, todo = set(), [s]
    while todo:
        x = todo.pop()
        for y in fo.get(x, []):
            if y not in seen:
                seen.add(y); todo.append(y)
    return seen


def gen_history(rng):
    """query - edit - query on ONE Circuit object: a cycle is closed by connect or opened by disconnect / remove between query
    batches; every answer is judged against the graph as it is at that call"""
    for _ in range(50):
        f = rng.choice([chain, in_tree, wide_fanout, diamond, nested_diamond, branch_is_meeting, ladder, random_dag, random_dag])
        n, e = f(rng)
        if n < 3 or n > 12:
            continue
        d = to_dump(rng, n, e)
        nodes = d["nodes"]
        cand = []
        for g in nodes:
            if g[1] in lib.MULTI:
                ds = sorted(x for x in descendants(nodes, g[0]))
                if ds:
                    cand.append((g, ds))
        if cand:
            break
    else:
        return gen_case(rng)
    g, ds = rng.choice(cand)
    x = rng.choice(ds)                      # back edge x -> g closes a cycle g ->* x -> g
    by = {r[0]: r for r in nodes}

    def with_edge(rows):
        rows = json.loads(json.dumps(rows))
        for r in rows:
            if r[0] == g[0]:
                r[3] = sorted(set(r[3]) | {x})
        return rows

    def without(rows, v):
        return [[r[0], r[1], r[2], [f for f in r[3] if f != v]] for r in json.loads(json.dumps(rows)) if r[0] != v]
    mode = rng.choice(["open_by_disconnect", "open_by_remove", "close_by_connect", "close_then_open"])
    phases = []
    if mode in ("open_by_disconnect", "open_by_remove"):
        start = with_edge(nodes)
        phases.append({"edit": None, "queries": make_queries(rng, start, True, light=True)})
        if mode == "open_by_disconnect":
            phases.append({"edit": ["disconnect", x, g[0]], "queries": make_queries(rng, nodes, False, light=True)})
        else:
            v = rng.choice([x, g[0]])
            phases.append({"edit": ["remove", v], "queries": make_queries(rng, without(start, v), False, light=True)})
        if rng.random() < 0.4 and mode == "open_by_disconnect":
            phases.append({"edit": ["connect", x, g[0]], "queries": make_queries(rng, start, True, light=True)})
    else:
        start = nodes
        phases.append({"edit": None, "queries": make_queries(rng, nodes, False, light=True)})
        phases.append({"edit": ["connect", x, g[0]], "queries": make_queries(rng, with_edge(nodes), True, light=True)})
        if mode == "close_then_open":
            if rng.random() < 0.5:
                phases.append({"edit": ["disconnect", x, g[0]], "queries": make_queries(rng, nodes, False, light=True)})
            else:
                phases.append({"edit": ["remove", x], "queries": make_queries(rng, without(nodes, x), False, light=True)})
    return {"circuit": {"name": "top", "nodes": start, "bbs": []}, "phases": phases, "shape": "history:" + mode}


def handmade():
    out = []
    g = {"name": "top", "bbs": [], "nodes": [["g", "input", False, []], ["a", "buf", False, ["g"]], ["b", "and", True, ["a", "g"]]]}
    out.append({"circuit": g, "shape": "hand:branch_is_meeting",
                "queries": [["reconvergent"], ["transitive_fanout", "g"], ["fanout_depth", "g"], ["fanin_depth", "b"], ["kcuts", "b", 1],
                            ["kcuts", "b", 0], ["levelize"], ["topo_sort"], ["is_cyclic"]]})
    nm = {"name": "top", "bbs": [], "nodes": [["d", "input", False, []], ["n", "not", True, ["d"]], ["din", "input", False, []],
                                              ["ny", "buf", False, ["din"]], ["q_out", "and", True, ["ny", "n"]]]}
    out.append({"circuit": nm, "shape": "hand:names_are_not_character_sets",
                "queries": [[f, x] for f in ("endpoints", "startpoints", "fanin", "fanout", "transitive_fanin", "transitive_fanout",
                                             "fanin_depth", "fanout_depth") for x in ("q_out", "din", "ny")]})
    return out


def generate(rng, tier):
    n = 150 if tier == "quick" else 1000
    return handmade() + [gen_case(rng) for _ in range(n)] + [gen_history(rng) for _ in range(n // 3)]


# ------------------------------------------------------------------ implementation driver
def _exc(e):
    return {"exc": type(e).__name__}


def run_queries(c, queries):
    import circuitgraph as cg
    ords = [[n, list(c.fanin(n))] for n in c.graph if c.fanin(n)]
    res = []
    for q in queries:
        fn = q[0]
        try:
            if fn in ("fanin", "fanout", "transitive_fanin", "transitive_fanout", "startpoints", "endpoints"):
                r = {"set": sorted(getattr(c, fn)(q[1]))}
            elif fn in ("fanin_depth", "fanout_depth"):
                r = {"int": getattr(c, fn)(q[1])}
            elif fn == "topo_sort":
                r = {"list": list(c.topo_sort())}
            elif fn == "levelize":
                try:
                    order = {"list": list(c.topo_sort())}
                except Exception as e:
                    order = _exc(e)
                try:
                    lv = cg.props.levelize(c)
                    r = {"order": order, "levels": [[k, int(v)] for k, v in lv.items()]}
                except Exception as e:
                    r = {"order": order, "exc": type(e).__name__}
            elif fn == "is_cyclic":
                r = {"bool": bool(c.is_cyclic())}
            elif fn == "reconvergent":
                r = {"set": sorted(c.reconvergent_fanout_nodes())}
            elif fn == "kcuts":
                r = {"cuts": [sorted(x) for x in c.kcuts(q[1], q[2])]}
        except Exception as e:
            r = _exc(e)
        res.append(r)
    return {"ords": ords, "res": res}


def impl(case):
    c = lib.build_circuit(case["circuit"])
    if "phases" not in case:
        return run_queries(c, case["queries"])
    out = []
    for ph in case["phases"]:
        ed = ph["edit"]
        if ed is not None:
            try:
                if ed[0] == "disconnect":
                    c.disconnect(ed[1], ed[2])
                elif ed[0] == "connect":
                    c.connect(ed[1], ed[2])
                elif ed[0] == "remove":
                    c.remove(ed[1])
            except Exception as e:          # an edit the API rejects ends the history (earlier phases still count)
                out.append({"edit_exc": type(e).__name__})
                break
        o = run_queries(c, ph["queries"])
        o["graph"] = lib.dump_circuit(c)["nodes"]      # the graph as it is at these calls
        out.append(o)
    return {"phases": out}


EXN = ("ValueError", "KeyError", "IndexError", "StopIteration", "NotImplementedError")


def cexc(r):
    return f"(Raise {r['exc']})" if r["exc"] in EXN else "(Raise OtherError)"


def cres(r, key, f):
    return cexc(r) if "exc" in r else f"(Ok {f(r[key])})"


def arg(a):
    if a is None:
        return []
    return [a] if isinstance(a, str) else list(a)


CTOR = {"fanin": "QFanin", "fanout": "QFanout", "transitive_fanin": "QTfi", "transitive_fanout": "QTfo",
        "startpoints": "QStart", "endpoints": "QEnd"}


def cqueries(queries, obs):
    qs = []
    for q, r in zip(queries, obs["res"]):
        fn = q[0]
        if fn in CTOR:
            if "exc" in r:                      # no exception is expected on existing nodes: fails agree and holds
                qs.append(f"QFail {cs(fn + ' raised ' + r['exc'])}")
                continue
            qs.append(f"{CTOR[fn]} {csl(arg(q[1]))} {csl(r['set'])}")
        elif fn in ("fanin_depth", "fanout_depth"):
            qs.append(f"{'QFaninDepth' if fn == 'fanin_depth' else 'QFanoutDepth'} {csl(arg(q[1]))} {cres(r, 'int', cnat)}")
        elif fn == "topo_sort":
            qs.append(f"QTopo {cres(r, 'list', csl)}")
        elif fn == "levelize":
            lv = cexc(r) if "exc" in r else "(Ok %s)" % cpairs(r["levels"], cs, cnat)
            qs.append(f"QLevelize {cres(r['order'], 'list', csl)} {lv}")
        elif fn == "is_cyclic":
            qs.append(f"QCyclic {cb(r['bool'])}" if "bool" in r else f"QFail {cs('is_cyclic raised ' + r['exc'])}")
        elif fn == "reconvergent":
            if "exc" in r:
                qs.append(f"QFail {cs(fn + ' raised ' + r['exc'])}")
                continue
            qs.append(f"QReconv {csl(r['set'])}")
        elif fn == "kcuts":
            qs.append(f"QKcuts {cs(q[1])} {cnat(q[2])} {cpairs(obs['ords'], cs, csl)} {cres(r, 'cuts', lambda cc: cl(csl(x) for x in cc))}")
    return cl(qs)


def to_coq(case, obs):
    if "phases" not in case:
        return f"CQ {cnodes(case['circuit']['nodes'])} {cqueries(case['queries'], obs)}"
    parts = []
    for ph, o in zip(case["phases"], obs["phases"]):
        if "edit_exc" in o:
            break
        parts.append(f"({cnodes(o['graph'])},{cqueries(ph['queries'], o)})")
    return f"CH {cl(parts)}" if parts else None


def nontrivial(case, obs):
    nodes = case["circuit"]["nodes"]
    if "phases" in case and len([o for o in obs["phases"] if "res" in o]) < 2:
        return False
    return len(nodes) >= 3 and sum(len(n[3]) for n in nodes) >= 2


def classify(case, obs):
    k = ["shape:" + case.get("shape", "?")]
    if "phases" in case:
        batches = [(ph["queries"], o["res"]) for ph, o in zip(case["phases"], obs["phases"]) if "res" in o]
        k += ["history:edit:" + ph["edit"][0] for ph in case["phases"] if ph["edit"]]
        k += ["history:edit-rejected:" + o["edit_exc"] for o in obs["phases"] if "edit_exc" in o]
    else:
        batches = [(case["queries"], obs["res"])]
    for queries, res in batches:
        for q, r in zip(queries, res):
            tag = q[0] + (":exc:" + r["exc"] if "exc" in r else "")
            if q[0] == "reconvergent" and "set" in r:
                tag += ":some" if r["set"] else ":none"
            if q[0] == "kcuts":
                tag = f"kcuts:k={q[2]}"
            if q[0] in CTOR:
                tag += ":str" if isinstance(q[1], str) else ":whole" if not q[1] else ":list"
            k.append(tag)
    if case["circuit"]["bbs"]:
        k.append("blackbox")
    return sorted(set(k))


def finding_signature(case, obs):
    return None


def mutate_case(rng, case):
    return gen_case(rng)


CLAIMED = True
LEVEL_TEXT = ("Theorems (all closed graphs): transitive_fanin/fanout are exactly the proper ancestors/descendants; the depth table gives, on "
              "acyclic graphs, a path of that length and no longer one (fan-in and, by edge reversal, fan-out depth); is_cyclic is true exactly "
              "when a directed cycle exists; the topological-order checker is sound; reconvergent_fanout_nodes is exactly 'two distinct fan-out "
              "branches reach a common node'; every k-cut other than {n} has at most k nodes and meets every path from a source to n. The models "
              "are tied to circuit.py / props.levelize by correspondence on generated graphs of every shape class.")
LEVEL_NOTE = ("Trusted: Coq kernel + vm_compute, std++, harness canonicalisation, the correspondence of the hand-written models; networkx "
              "topological_sort is not modelled: its answer is validated per case by the proved checker. See docs/C12.md for which statements are "
              "_partial.")
TECHNIQUE = "Coq proofs over an inductive path predicate (pigeonhole, edge reversal, relaxation table) + vm_compute correspondence and definitional oracle"
