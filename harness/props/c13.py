"""C13: generated arithmetic blocks compute the arithmetic they name (logic.py generators, utils.py bit helpers)."""
import lib
from lib import cs, cb, ccirc, cnat

ID = "C13"
RUN_MODULE = "Run.Run_C13"
GEN_FILES = []
RULE = ("every (generator, width, carry flags) with adder w<=4 (quick 3), mux w<=8 (quick 6), popcount w<=6 (quick 4), width 0 included "
        "(error branches of mux/popcount), half/full adder; the returned graph is compared with the model and judged by the Coq "
        "oracle on ALL input vectors; helper calls: clog2 on -4..70, 2^k-1, 2^k, 2^k+1 (k<=70) and random 80-bit numbers, "
        "int_to_bin/bin_to_int on i<2^w, i>=2^w (no truncation), w=0, both endiannesses, random tuples incl. the empty one; "
        "two-digit widths (mux 11-13, adder 11; popcount 12 by graph equality only in quick): graph equality plus the specification on a "
        "SUBSET sweep of vectors generated in Coq (mux: every select value x zero/one-hot data; adder: zero, all ones, single bits, "
        "carry from every position; popcount 5 every vector, 9/10/13: none, singles, prefixes, all, all-but-one) -- a test on those "
        "vectors, not a decision for all vectors; sessions: several generator calls in one process in both orders, each generator "
        "called three times with the first result edited in between, every returned circuit judged; "
        "thorough adds graph equality at widths up to 64 and a Python simulation pre-screen (support only); "
        "non-trivial = a block with at least one gate or a helper call with a non-zero argument; distinct = (function, arguments)")
EXPLANATION = ("adder/mux/half/full adder and the helpers proved for every width over the model; model = implementation result by graph "
               "equality; arithmetic specification evaluated in Coq on the returned circuit for all input vectors")
SHARD = 16
HASHSEEDS = {"quick": [0], "thorough": [0, 1]}


# ---------------------------------------------------------------- generation
def generate(rng, tier):
    q = tier == "quick"
    out = []
    # helpers
    nums = list(range(-4, 71)) + [2 ** k + d for k in range(3, 71, 1 if not q else 7) for d in (-1, 0, 1)]
    nums += [rng.getrandbits(rng.randint(1, 80)) for _ in range(20 if q else 300)]
    out += [{"fn": "clog2", "num": n} for n in nums]
    for _ in range(60 if q else 1500):
        w = rng.choice([0, 1, 2, 3, 5, 8, 13, 31, 32, 33, 64, 70]) if rng.random() < 0.5 else rng.randint(0, 70)
        r = rng.random()
        if r < 0.65:
            i = rng.randrange(2 ** w)
        elif r < 0.8:
            i = rng.choice([0, 2 ** w - 1, 2 ** w // 2])
        else:
            i = 2 ** w + rng.getrandbits(rng.randint(1, 12))      # does not fit: zfill never truncates
        lend = rng.random() < 0.5
        out.append({"fn": "i2b", "i": max(i, 0), "w": w, "lend": int(lend) if rng.random() < 0.4 else lend})   # 1/0 as well as True/False
    out += [{"fn": "b2i", "b": [], "lend": l} for l in (False, True)]
    for _ in range(30 if q else 600):
        n = rng.randint(1, 12) if rng.random() < 0.8 else rng.randint(13, 70)
        lend = rng.random() < 0.5
        out.append({"fn": "b2i", "b": [rng.random() < 0.5 for _ in range(n)], "lend": int(lend) if rng.random() < 0.4 else lend})
    # blocks, judged in Coq on all input vectors
    helpers, out = out, []
    out += [{"fn": "half_adder"}, {"fn": "full_adder"}]
    for w in range(0, 4 if q else 5):
        for ci in (False, True):
            for co in (False, True):
                if q and w == 3 and ci != co:
                    continue            # quick: two of the four flag sets at the largest width
                out.append({"fn": "adder", "w": w, "ci": ci, "co": co})
                if w <= 2:
                    # the same call with the flags as ints 1/0, as Python callers write them (truthiness; Coq sees a bool)
                    out.append({"fn": "adder", "w": w, "ci": int(ci), "co": int(co)})
    out += [{"fn": "mux", "w": w} for w in range(0, 7 if q else 9)]
    out += [{"fn": "popcount", "w": w} for w in range(0, 5 if q else 7)]
    # widths with two-digit indices (in_10 sorts before in_2 ...): graph equality + the specification on a SUBSET of the
    # input vectors generated in Coq (mux: every select value x one-hot/zero data; adder: zero, all ones, single bits, carries)
    out += [{"fn": "mux", "w": w, "sweep": True} for w in ((11, 12, 13) if q else (11, 12, 13, 16, 17))]
    out.append({"fn": "adder", "w": 11, "ci": True, "co": True, "sweep": True})
    # popcount: every vector at w = 5, 6 and a subset (none, singles, prefixes, all, all-but-one: the vectors that need the
    # top output bits) at widths where an operand is carried over between levels of the adder tree
    out += [{"fn": "popcount", "w": w, "sweep": True} for w in ((5, 9, 10, 13) if q else (5, 6, 7, 8, 9, 10, 11, 12, 13, 14, 17, 18, 21))]
    if q:
        out.append({"fn": "popcount", "w": 12, "big": True})          # graph equality (in_10, add_10); sweep only if it fails
    else:
        out.append({"fn": "adder", "w": 12, "ci": False, "co": True, "sweep": True})
    # several calls in ONE process, both orders, every generator called three times with the first result edited in between
    A1, A2 = ["adder", 1, False, True], ["adder", 2, False, True]
    out.append({"fn": "session", "calls": [["popcount", 3], A1, A2, ["mux", 3], ["half_adder"], ["full_adder"]]})
    B1, B2 = ["adder", 1, 0, 1], ["adder", 2, 0, 1]          # int flags
    out.append({"fn": "session", "calls": [B1, A2, ["mux", 3], ["popcount", 3], A1, B2, ["adder", 2, 1, 0], ["mux", 3]]})
    if not q:
        for _ in range(6):
            calls = []
            for _ in range(rng.randint(3, 6)):
                r = rng.random()
                if r < 0.35:
                    calls.append(["popcount", rng.randint(1, 4)])
                elif r < 0.8:
                    fl = [rng.random() < 0.5, rng.random() < 0.6]
                    calls.append(["adder", rng.randint(0, 3)] + ([int(x) for x in fl] if rng.random() < 0.4 else fl))
                else:
                    calls.append(["mux", rng.randint(1, 5)])
            out.append({"fn": "session", "calls": calls})
    if not q:
        # graph equality at large widths + simulation pre-screen
        for w in (7, 8, 13, 16, 31, 32, 33, 64):
            out.append({"fn": "adder", "w": w, "ci": rng.random() < 0.5, "co": rng.random() < 0.5, "big": True})
            out.append({"fn": "mux", "w": w, "big": True})
        for w in (7, 8, 13, 16, 31, 32, 33, 64):
            out.append({"fn": "popcount", "w": w, "big": True})
        for w in (5, 6, 7, 8, 11, 16, 24, 31, 32, 33, 47, 63, 64):
            for fn in ("adder", "mux", "popcount"):
                out.append({"fn": "sim", "block": fn, "w": w, "ci": rng.random() < 0.5, "co": rng.random() < 0.5,
                            "vectors": 200, "seed": rng.getrandbits(32)})
    # balance the Coq shards (SHARD cases each): expensive block cases are placed greedily (largest first) into the least loaded
    # shard, the cheap helper cases fill the shards up
    blocks = out
    total = len(blocks) + len(helpers)
    nsh = max(1, -(-total // SHARD))
    bins, load = [[] for _ in range(nsh)], [0.0] * nsh
    for k, c in sorted(enumerate(blocks), key=lambda kc: (-_cost(kc[1]), kc[0])):
        j = min((j for j in range(nsh) if len(bins[j]) < SHARD), key=lambda j: (load[j], j))
        bins[j].append(c)
        load[j] += _cost(c)
    hs = list(helpers)
    for j in range(nsh):
        while len(bins[j]) < SHARD and hs:
            bins[j].append(hs.pop(0))
    return [c for b in bins for c in b] + hs


def _cost(c):
    """rough Coq seconds of a block case (only used to balance shards)"""
    fn, w = c["fn"], c.get("w", 0)
    if fn == "session":
        return 8.0
    if c.get("sweep"):
        return {"popcount": 1.5 * w, "adder": 0.6 * w, "mux": 0.15 * w}.get(fn, 1.0)
    if c.get("big") or fn == "sim":
        return 0.2 + w / 16.0
    if fn == "popcount":
        return 0.3 + w ** 2 / 3.0
    if fn == "adder":
        return 0.2 + w ** 3 / 5.0
    if fn == "mux":
        return 0.1 + 2.0 ** w / 30.0
    return 0.2


# ---------------------------------------------------------------- implementation driver
def _exc(e):
    return {"exc": type(e).__name__}


def _simulate(c, assign):
    """plain topological simulation of a blackbox-free acyclic circuit (pre-screen only)"""
    import networkx as nx
    val = {}
    g = c.graph
    for n in nx.topological_sort(g):
        t = g.nodes[n]["type"]
        fi = [val[p] for p in g.predecessors(n)]
        if t == "input":
            val[n] = assign[n]
        elif t == "0":
            val[n] = False
        elif t == "1":
            val[n] = True
        elif t == "buf":
            val[n] = fi[0]
        elif t == "not":
            val[n] = not fi[0]
        elif t in ("and", "nand"):
            val[n] = all(fi) != (t == "nand")
        elif t in ("or", "nor"):
            val[n] = any(fi) != (t == "nor")
        elif t in ("xor", "xnor"):
            val[n] = (sum(fi) % 2 == 1) != (t == "xnor")
        else:
            raise ValueError(t)
    return val


def _sim_block(case):
    import random
    import circuitgraph as cg
    rng = random.Random(case["seed"])
    w, fn = case["w"], case["block"]
    if fn == "adder":
        c = cg.logic.adder(w, case["ci"], case["co"])
    elif fn == "mux":
        c = cg.logic.mux(w)
    else:
        c = cg.logic.popcount(w)
    ins = sorted(c.inputs())
    for _ in range(case["vectors"]):
        a = {n: rng.random() < 0.5 for n in ins}
        v = _simulate(c, a)
        num = lambda p, k: sum(int(v[f"{p}{i}"]) << i for i in range(k))
        if fn == "adder":
            tot = num("a_", w) + num("b_", w) + (int(v["cin"]) if case["ci"] else 0)
            if num("out_", w) != tot % 2 ** w or (case["co"] and int(v["cout"]) != tot >> w):
                return False
        elif fn == "mux":
            k = sum(1 for n in ins if n.startswith("sel_"))
            i = num("sel_", k)
            if v["out"] != (v[f"in_{i}"] if i < w else False):
                return False
        else:
            m = len(c.outputs())
            if num("out_", m) != sum(int(v[f"in_{i}"]) for i in range(w)):
                return False
    return True


def _session_call(call):
    """one generator called three times in this process: first result, then (after EDITING the first result) the second
    result as it is now, and a third, fresh call.  All three must be the block the generator names."""
    import circuitgraph as cg
    f = getattr(cg.logic, call[0])
    args = call[1:]
    res = {"dumps": [], "same_object": None}
    try:
        r1 = f(*args)
        res["dumps"].append(lib.dump_circuit(r1))
        r2 = f(*args)
        res["same_object"] = (r1 is r2) or (r1.graph is r2.graph)
        # edit the first result the way a user would: a new input, an output unmarked, a node renamed
        r1.add("zz_probe", "input")
        outs = sorted(r1.outputs())
        if outs:
            r1.set_output(outs[0], False)
            r1.relabel({outs[0]: "zz_renamed"})
        res["dumps"].append(lib.dump_circuit(r2))
        r3 = f(*args)
        res["dumps"].append(lib.dump_circuit(r3))
    except Exception as e:
        res["exc"] = type(e).__name__
    return res


def impl(case):
    import circuitgraph as cg
    fn = case["fn"]
    if fn == "clog2":
        try:
            return {"ret": cg.utils.clog2(case["num"])}
        except Exception as e:
            return _exc(e)
    if fn == "i2b":
        t = cg.utils.int_to_bin(case["i"], case["w"], case["lend"])
        assert all(isinstance(x, bool) for x in t)
        try:
            back = {"ret": cg.utils.bin_to_int(t, case["lend"])}
        except Exception as e:
            back = _exc(e)
        return {"ret": list(t), "back": back}
    if fn == "b2i":
        try:
            return {"ret": cg.utils.bin_to_int(tuple(case["b"]), case["lend"])}
        except Exception as e:
            return _exc(e)
    if fn == "sim":
        return {"ok": _sim_block(case)}
    if fn == "session":
        return {"calls": [_session_call(c) for c in case["calls"]]}
    try:
        if fn == "half_adder":
            c = cg.logic.half_adder()
        elif fn == "full_adder":
            c = cg.logic.full_adder()
        elif fn == "adder":
            c = cg.logic.adder(case["w"], case["ci"], case["co"])
        elif fn == "mux":
            c = cg.logic.mux(case["w"])
        elif fn == "popcount":
            c = cg.logic.popcount(case["w"])
    except Exception as e:
        return _exc(e)
    return {"out": lib.dump_circuit(c)}


# ---------------------------------------------------------------- Coq printing
def cz(n):
    return "(%d)%%Z" % n


def cn(n):
    return "%d%%N" % n


def cbl(bs):
    return "[" + ";".join(cb(b) for b in bs) + "]"


def cexc(name):
    return "(Raise %s)" % (name if name in ("ValueError", "KeyError", "IndexError", "StopIteration", "NotImplementedError") else "OtherError")


def cres(obs, f):
    return cexc(obs["exc"]) if "exc" in obs else "(Ok %s)" % f(obs["ret"])


def to_coq(case, obs):
    fn = case["fn"]
    if fn == "clog2":
        return f"CClog2 {cz(case['num'])} {cres(obs, cnat)}"
    if fn == "i2b":
        return f"CI2B {cn(case['i'])} {cnat(case['w'])} {cb(case['lend'])} {cbl(obs['ret'])} {cres(obs['back'], cn)}"
    if fn == "b2i":
        return f"CB2I {cbl(case['b'])} {cb(case['lend'])} {cres(obs, cn)}"
    if fn == "sim":
        return f"CSim {cs(case['block'])} {cnat(case['w'])} {cnat(case['vectors'])} {cb(obs['ok'])}"
    if fn == "session":
        terms = []
        for call, r in zip(case["calls"], obs["calls"]):
            sub = {"fn": call[0]}
            if call[0] == "adder":
                sub.update(w=call[1], ci=call[2], co=call[3])
            elif call[0] in ("mux", "popcount"):
                sub["w"] = call[1]
            seen = []
            for d in r["dumps"]:
                if d not in seen:           # identical dumps are judged once
                    seen.append(d)
                    terms.append(to_coq(sub, {"out": d}))
            if "exc" in r:
                # an exception in the middle of a session (w >= 1 everywhere here) is a block that was not delivered
                terms.append(f"CSim {cs(call[0])} {cnat(call[1] if len(call) > 1 else 0)} 0%nat F")
        return "CSession [" + ";".join(t for t in terms if t) + "]"
    circ = ccirc(obs["out"]) if "out" in obs else None
    if fn == "half_adder":
        return f"CHalf {circ}" if circ else None
    if fn == "full_adder":
        return f"CFull {circ}" if circ else None
    w = cnat(case["w"])
    kind = "Big" if case.get("big") else "Sweep" if case.get("sweep") else ""
    if fn == "adder":
        if not circ:
            return None
        return f"C{'Big' if kind == 'Big' else ''}Adder{'Sweep' if kind == 'Sweep' else ''} {w} {cb(case['ci'])} {cb(case['co'])} {circ}" if kind else f"CAdder {w} {cb(case['ci'])} {cb(case['co'])} {circ}"
    rc = cexc(obs["exc"]) if "exc" in obs else f"(Ok {circ})"
    if kind == "Big":
        return f"{'CBigMux' if fn == 'mux' else 'CBigPop'} {w} {circ}" if circ else None
    if kind == "Sweep":
        # a block that is not even returned at these widths is judged by the exhaustive small-width cases
        return f"{'CMuxSweep' if fn == 'mux' else 'CPopSweep'} {w} {circ}" if circ else f"CSim {cs(fn)} {w} 0%nat F"
    return f"{'CMux' if fn == 'mux' else 'CPop'} {w} {rc}"


def nontrivial(case, obs):
    fn = case["fn"]
    if fn == "clog2":
        return case["num"] != 0
    if fn == "i2b":
        return case["i"] != 0
    if fn == "b2i":
        return any(case["b"])
    if fn in ("sim", "session"):
        return True
    return "out" in obs and any(n[3] for n in obs["out"]["nodes"])


def classify(case, obs):
    fn = case["fn"]
    if fn == "sim":
        return "sim:" + case["block"]
    if fn == "session":
        return ["session"] + (["session:shared-object"] if any(c.get("same_object") for c in obs["calls"]) else [])
    tag = fn + (":big" if case.get("big") else ":sweep" if case.get("sweep") else "")
    if isinstance(obs, dict) and "exc" in obs:
        tag += ":" + obs["exc"]
    if fn == "i2b":
        tag += ":fits" if case["i"] < 2 ** case["w"] else ":wider"
    return tag


def finding_signature(case, obs):
    return None


def mutate_case(rng, case):
    fn = case["fn"]
    if fn in ("adder", "mux", "popcount"):
        c = dict(case)
        c.pop("big", None)
        if c.get("sweep") and fn == "mux":
            c["w"] = rng.randint(11, 17)
            return c
        if fn == "popcount" and (c.get("sweep") or case.get("big")):
            return {"fn": "popcount", "w": rng.randint(5, 14), "sweep": True}
        c.pop("sweep", None)
        c["w"] = rng.randint(1, 4 if fn != "mux" else 8)
        c["ci"], c["co"] = rng.random() < 0.5, rng.random() < 0.5
        return c
    if fn == "clog2":
        return {"fn": "clog2", "num": rng.randint(-3, 300)}
    if fn == "i2b":
        w = rng.randint(0, 12)
        return {"fn": "i2b", "i": rng.randrange(2 ** (w + 1)), "w": w, "lend": rng.random() < 0.5}
    if fn == "b2i":
        return {"fn": "b2i", "b": [rng.random() < 0.5 for _ in range(rng.randint(0, 8))], "lend": rng.random() < 0.5}
    return case


CLAIMED = True
LEVEL_TEXT = ("Theorems over the model, for every width w (unbounded, by induction): the ripple-carry adder outputs (a+b+cin) mod 2^w and "
              "the carry bit for both carry options; mux(w) outputs in_i for i = value of the select lines and 0 for i >= w; popcount(w) outputs "
              "the binary count of ones; half/full adder; clog2 = ceil(log2), ValueError below 1, fuel never exhausted; "
              "bin_to_int(int_to_bin(i,w,lend),lend) = i for every i (the code never truncates) with exactly w entries when i < 2^w; "
              "adder, mux and popcount are lint-clean, closed, acyclic and have exactly the named inputs as free nodes for every width. The model equals what the generators return (graph equality) on "
              "every generated width (up to 64 in the thorough tier); independently the Coq oracle evaluates the arithmetic specification "
              "on the returned circuits for all input vectors (small widths) and lints them.")
LEVEL_NOTE = ("No statement is partial. Error branches modelled and checked: clog2(n<1) and mux(0) raise ValueError, popcount(0) IndexError, "
              "bin_to_int(()) ValueError; negative i for int_to_bin is outside the property. The Python simulation pre-screen at widths up "
              "to 64 (thorough) is additional support only, not the proof. Trusted: Coq kernel + vm_compute, std++, Base/Sem.v semantics of "
              "gate types, LintProofs (C20) for lint_clean, harness dump/printer; the tie model = code is the per-run graph-equality check.")
TECHNIQUE = "Coq proofs by induction on the width over a name-exact model + graph-equality correspondence + vm_compute oracle on returned circuits"
