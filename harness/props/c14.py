"""C14: the fast (regex) Verilog reader agrees with the full (Lark) reader on its documented subset."""
import json
import os
import random
from pathlib import Path

import lib
from lib import cs, csl, ccirc
from props import c14_util as U

ID = "C14"
RUN_MODULE = "Run.Run_C14"
GEN_FILES = ["Gen_fastv.v", "Gen_types.v"]
RULE = ("random ASTs of the documented subset (1-6 inputs, 1-14 statements: all 8 primitives at arity 1-4, assigns of nets and "
        "constants, named-port blackbox instances with connected / `.p()` / omitted pins, constants 1'b0/1'b1 as gate operands, "
        "pin nets and assign sources, equal operands, inputs that are outputs, combinational loops, statements in any order "
        "incl. use before declaration; identifiers containing keywords, tie0/tie_0-like names, leading underscores) rendered in the writer's "
        "layout or with random blanks/tabs/newlines everywhere except between `)` and `;`; both real readers read the same "
        "text; plus a malformed stream outside the subset (model faithfulness only); thorough adds the bundled netlists. "
        "non-trivial = inside the subset, both readers succeed, at least 3 nodes; distinct = hash of AST + text")
EXPLANATION = ("AST-level models of both readers (regenerated literal tables), agreement theorems for the proved part, both tied to the "
               "real readers on rendered texts; the property itself judged in Coq on what the two readers returned")
SHARD = 20
HASHSEEDS = {"quick": [0, 1], "thorough": [0, 1, 2]}
COQ_MAX_NODES = 40
# the instance pattern of fast_parse_verilog_netlist (C14_tables_ok checks that the library's pattern is this one)
INST_RE = r"([a-zA-Z_][a-zA-Z\d_]*)\s+([a-zA-Z_][a-zA-Z\d_]*)\s*\(([^;]+)\);"


# ---------------------------------------------------------------- generation
def malform(rng, ast):
    """one edit that leaves the documented subset but stays inside what the AST-level models describe"""
    ast = json.loads(json.dumps(ast))
    items = ast["items"]
    gates = [it for it in items if it[0] == "gate"]
    insts = [it for it in items if it[0] == "inst"]
    outs = [it for it in items if it[0] == "output"]
    kind = rng.choice(["second_driver", "undriven_output", "unknown_bb", "unknown_pin", "port_missing", "port_extra", "h_const",
                       "x_const", "floating", "drive_input", "dup_inst", "buf_two"])
    if kind == "second_driver" and gates:
        g = rng.choice(gates)
        items.append(["gate", rng.choice(U.PRIMS[1:3] + ["buf"]), "zz9", [g[3][0], rng.choice(ast["ports"])]])
    elif kind == "undriven_output":
        ast["ports"].append("qq_und"); items.insert(rng.randrange(len(items) + 1), ["output", ["qq_und"]])
    elif kind == "unknown_bb":
        items.insert(rng.randrange(len(items) + 1), ["inst", "nosuch", "zz8", [["a", ast["ports"][0]]]])
    elif kind == "unknown_pin" and insts:
        rng.choice(insts)[3].append(["nopin", rng.choice([ast["ports"][0], None])])
    elif kind == "port_missing":
        ast["ports"].pop(rng.randrange(len(ast["ports"])))
    elif kind == "port_extra":
        ast["ports"].append("qq_extra")
    elif kind == "h_const":
        items.append(["assign", "qq_h", rng.choice(["1'h0", "1'h1", "1'd1", "1'd0"])]); items.append(["wire", ["qq_h"]])
    elif kind == "x_const":
        items.append(["assign", "qq_x", "1'bx"])
    elif kind == "floating" and gates:
        rng.choice(gates)[3].append("qq_float")
    elif kind == "drive_input":
        ins = [n for it in items if it[0] == "input" for n in it[1]]
        if ins:
            items.append(["gate", "not", "zz7", [rng.choice(ins), rng.choice(ast["ports"])]])
    elif kind == "dup_inst" and insts:
        i = rng.choice(insts)
        items.append(["inst", i[1], i[2], [[p, None] for p, _ in i[3]][:1]])
    elif kind == "buf_two" and gates:
        g = rng.choice(gates)
        items.append(["gate", "buf", "zz6", ["qq_b2", g[3][0], ast["ports"][0]]])
    ast["malformed"] = kind
    return ast


def mk_case(rng, ast, style=None, kind="gen"):
    style = style or rng.choice(["random", "random", "writer"])
    text = U.render(ast, rng, style)
    return {"kind": kind, "ast": ast, "text": text, "style": style}


def generate(rng, tier):
    n = 150 if tier == "quick" else 800
    out = []
    for i in range(n):
        r = rng.random()
        ast = U.gen_ast(rng, size="small" if rng.random() < (0.75 if tier == "quick" else 0.6) else "big", stress=rng.choice([0.0, 0.3, 0.6, 0.9]),
                        p_const=rng.choice([0.0, 0.15, 0.4]), pardup=0.25 if r < 0.3 else 0.0,
                        p_cycle=0.12)
        if r > 0.82:
            ast = malform(rng, ast)
        out.append(mk_case(rng, ast, kind="malformed" if "malformed" in ast else "gen"))
    # two fast reads in ONE worker call: the second netlist reuses a cell name of the first with other pins (more / fewer /
    # swapped); the SECOND result is judged (state kept across calls must not leak), both orders
    for i in range(12 if tier == "quick" else 120):
        def with_inst(bblib, cell):
            for _ in range(200):
                a = U.gen_ast(rng, size="small", stress=rng.choice([0.0, 0.4]), p_const=0.2, p_bb=1.0, bblib=bblib)
                if any(it[0] == "inst" and it[1] == cell for it in a["items"]):
                    return a
            return None
        base = rng.choice([b for b in U.BBLIB if b[1] or b[2]])
        other, how = U.vary_bb(rng, base)
        a1, a2 = with_inst([base], base[0]), with_inst([other], base[0])
        if a1 is None or a2 is None:
            continue
        c1, c2 = mk_case(rng, a1), mk_case(rng, a2)
        out.append({"kind": "history", "how": how, "first": c1, "ast": a2, "text": c2["text"], "style": c2["style"]})
        out.append({"kind": "history", "how": how + "-reversed", "first": c2, "ast": a1, "text": c1["text"], "style": c1["style"]})
    # character level: net_str.split(",") + strip() of the running Python on operand texts with every ASCII blank
    blank = " \t\n\r\x0b\x0c\x1c\x1d\x1e\x1f"
    for i in range(20 if tier == "quick" else 200):
        k = rng.randint(1, 5)
        parts = []
        for _ in range(k):
            core = rng.choice(["a", "n_1", "1'b0", "1'b1", "xinput", "tie0", "", "_w", "G12gat", "a b", "x\ty"])
            parts.append("".join(rng.choice(blank) for _ in range(rng.randint(0, 3))) + core +
                         "".join(rng.choice(blank) for _ in range(rng.randint(0, 3))))
        out.append({"kind": "split", "text": ",".join(parts)})
    # character level (2): re.match of the instance pattern on renderings of `gate inst(ops);` and on damaged variants
    for i in range(20 if tier == "quick" else 200):
        ws = lambda lo: "".join(rng.choice(" \t\n\r\x0b\x0c") for _ in range(rng.randint(lo, 3)))
        g = rng.choice(["nand", "and", "ff", "_u1", "X9_", "b", "9x", "a-b", ""])
        inst = rng.choice(["g1", "NAND2_0", "_00_", "u_4", "3g", "i", ""])
        ops = rng.choice(["o,a,b", " o , a ", ".d(a), .q(w)", "o", "", "a;b", "o,(a)", "\n o,\n a\n"])
        tail = rng.choice([");", ") ;", ")", ");and g2(x,y);", ");\nendmodule", ";"])
        out.append({"kind": "inst", "text": g + ws(rng.choice([0, 1, 1, 1])) + inst + ws(0) + "(" + ops + tail})
    if tier == "thorough":
        d = lib.REPO / "circuitgraph" / "netlists"
        for f in sorted(list(d.glob("*.v")) + list((d / "tests").glob("*.v"))):
            if f.stat().st_size and f.stat().st_size < 700000:
                out.append({"kind": "bundled", "file": str(f.relative_to(d))})
    return out


# ---------------------------------------------------------------- implementation driver
def _read(text, name, bbdefs, fast):
    import contextlib
    import io
    import circuitgraph as cg
    bbs = [cg.BlackBox(n, i, o) for n, i, o in bbdefs]
    try:
        with contextlib.redirect_stdout(io.StringIO()):
            c = cg.io.verilog_to_circuit(text, name, blackboxes=bbs, fast=fast)
        return {"ok": lib.dump_circuit(c)}
    except Exception as e:
        return {"exc": type(e).__name__}


def impl(case):
    if case["kind"] == "split":
        return {"pieces": [n.strip() for n in case["text"].split(",")]}
    if case["kind"] == "inst":
        import re
        m = re.match(INST_RE, case["text"], re.DOTALL)
        return {"groups": list(m.groups()) if m else None}
    if case["kind"] == "bundled":
        raw = (lib.REPO / "circuitgraph" / "netlists" / case["file"]).read_text()
        had_comments = "//" in raw or "/*" in raw
        text = U.strip_comments(raw)
        known = [["ff", ["CK", "D"], ["Q"]]]
        ast, why = U.parse_subset(text, known)
        if ast is None:
            return {"skip": "outside the subset grammar: " + why}
        w = U.wf(ast)
        if w:
            return {"skip": "outside the documented subset: " + w}
        f = _read(text, ast["name"], ast["bbdefs"], True)
        l = _read(text, ast["name"], ast["bbdefs"], False)
        n = U.count_nodes(ast)
        same = "ok" in f and "ok" in l and U.py_same(f["ok"], l["ok"])
        obs = {"nodes": n, "py_same": same, "had_comments": had_comments}
        if n <= COQ_MAX_NODES:
            obs.update({"ast": ast, "fast": f, "full": l})
        elif not same:
            obs["fast_exc"], obs["full_exc"] = f.get("exc"), l.get("exc")
        return obs
    ast = case["ast"]
    if case["kind"] == "history":
        # an earlier fast read in the same process, with another definition of the same cell name (result not judged here)
        f0 = case["first"]
        first = _read(f0["text"], f0["ast"]["name"], f0["ast"]["bbdefs"], True)
        return {"first_ok": "ok" in first,
                "fast": _read(case["text"], ast["name"], ast["bbdefs"], True),
                "full": _read(case["text"], ast["name"], ast["bbdefs"], False)}
    return {"fast": _read(case["text"], ast["name"], ast["bbdefs"], True),
            "full": _read(case["text"], ast["name"], ast["bbdefs"], False)}


# ---------------------------------------------------------------- Coq printing
def copd(o):
    return ("K " if U.is_const(o) else "N ") + cs(o)


def citem(it):
    k = it[0]
    if k == "input":
        return "IInput " + csl(it[1])
    if k == "output":
        return "IOutput " + csl(it[1])
    if k == "wire":
        return "IWire " + csl(it[1])
    if k == "gate":
        return "IGate %s %s %s" % (lib.cty(it[1]), cs(it[2]), lib.cl(copd(o) for o in it[3]))
    if k == "assign":
        return "IAssign %s (%s)" % (cs(it[1]), copd(it[2]))
    return "IInst %s %s %s" % (cs(it[1]), cs(it[2]),
                               lib.cl("(%s,%s)" % (cs(p), "None" if n is None else "Some (%s)" % copd(n)) for p, n in it[3]))


def cast(ast):
    return "(A %s %s %s)" % (cs(ast["name"]), csl(ast["ports"]), lib.cl(citem(i) for i in ast["items"]))


def cres(r):
    if "ok" in r:
        return "(Ok %s)" % ccirc(r["ok"])
    if r["exc"] in ("ValueError", "KeyError", "IndexError", "StopIteration", "NotImplementedError"):
        return "(Raise %s)" % r["exc"]
    return "(Raise OtherError)"


def to_coq(case, obs):
    if case["kind"] == "inst":
        codes = lambda t: lib.cl(str(ord(ch)) for ch in t)
        g = obs["groups"]
        return "CInst %s %s" % (codes(case["text"]), "None" if g is None else "(Some (%s,%s,%s))" % tuple(codes(x) for x in g))
    if case["kind"] == "split":
        codes = lambda t: lib.cl(str(ord(ch)) for ch in t)
        return "CSplit %s %s" % (codes(case["text"]), lib.cl(codes(p) for p in obs["pieces"]))
    if case["kind"] == "bundled":
        if "skip" in obs:
            return None
        if "ast" not in obs:
            return "CSupport %s %s" % (cs(case["file"]), lib.cb(obs["py_same"]))
        ast = obs["ast"]
    else:
        ast = case["ast"]
    bbs = lib.cl("mk_bb %s %s %s" % (cs(n), csl(i), csl(o)) for n, i, o in ast["bbdefs"])
    return "CParse %s %s %s %s" % (cast(ast), bbs, cres(obs["fast"]), cres(obs["full"]))


# ---------------------------------------------------------------- evidence
def nontrivial(case, obs):
    if case["kind"] == "inst":
        return obs["groups"] is not None
    if case["kind"] == "split":
        return len(obs["pieces"]) >= 2
    if case["kind"] == "bundled":
        return "skip" not in obs
    return case["kind"] != "malformed" and "ok" in obs["fast"] and "ok" in obs["full"] and len(obs["fast"]["ok"]["nodes"]) >= 3


def _cyclic(d):
    fi = {n[0]: n[3] for n in d["nodes"]}
    state = {}

    def visit(n):
        if state.get(n) == 1:
            return True
        if state.get(n) == 2:
            return False
        state[n] = 1
        r = any(visit(f) for f in fi.get(n, []))
        state[n] = 2
        return r
    return any(visit(n) for n in fi)


def classify(case, obs):
    if case["kind"] == "inst":
        return ["instance pattern:" + ("match" if obs["groups"] else "no match")]
    if case["kind"] == "split":
        return ["split/strip:%d pieces" % len(obs["pieces"])]
    if case["kind"] == "bundled":
        if "skip" in obs:
            return ["bundled:skipped"]
        return ["bundled:coq-judged" if "ast" in obs else "bundled:python-compared(support)"] + (["bundled:comments-stripped"] if obs["had_comments"] else [])
    ast = case["ast"]
    out = ["style:" + case["style"]]
    if case["kind"] == "history":
        out.append("history:" + case["how"])
    if case["kind"] == "malformed":
        out.append("malformed:" + ast.get("malformed", "?") + ":" + obs["fast"].get("exc", "ok") + "/" + obs["full"].get("exc", "ok"))
        return out
    ids = {o for it in ast["items"] for o in (it[1] if it[0] in ("input", "output", "wire") else it[3] if it[0] == "gate" else
                                              [it[1], it[2]] if it[0] == "assign" else [n for _, n in it[3] if n])}
    if "ok" in obs["fast"] and _cyclic(obs["fast"]["ok"]):
        out.append("cyclic")
    for it in ast["items"]:
        if it[0] == "gate":
            out.append("gate:%s/%d" % (it[1], len(it[3]) - 1))
            if any(U.is_const(o) for o in it[3]):
                out.append("const:gate-operand")
            if len(set(it[3][1:])) < len(it[3][1:]):
                out.append("equal-operands:" + ("parity" if it[1] in ("xor", "xnor") else "other"))
        elif it[0] == "assign":
            out.append("assign:" + ("const" if U.is_const(it[2]) else "net"))
        elif it[0] == "inst":
            out.append("blackbox")
            if any(n is None for _, n in it[3]):
                out.append("pin:unconnected")
            if any(n and U.is_const(n) for _, n in it[3]):
                out.append("const:pin")
            b = next(b for b in ast["bbdefs"] if b[0] == it[1])
            if len(it[3]) < len(b[1]) + len(b[2]):
                out.append("pin:omitted")
    if ids & {"tie0", "tie1", "tie_0", "tie_1", "tie_x", "tie0_0", "tie_0_0", "tie1_0"}:
        out.append("names:tie-like")
    if any(i.startswith("_") for i in ids):
        out.append("names:leading-underscore")
    if any(k in i for i in ids for k in ("input", "output", "wire", "assign", "module")):
        out.append("names:keyword-inside")
    return out


def finding_signature(case, obs):
    return None


def mutate_case(rng, case):
    ast = U.gen_ast(rng, stress=0.6, p_const=0.3, pardup=0.3)
    return mk_case(rng, ast)


CLAIMED = True
LEVEL_TEXT = ("Proved in Coq for EVERY AST of the documented subset (8 primitives at any arity, constants, assigns, named-port blackbox "
              "instances with connected / unconnected / omitted pins, any statement order, loops): both reader models succeed and return "
              "circuits identical apart from the constant nodes' names, with the same name, registry, inputs and outputs and matching "
              "consistent valuations on every net and pin (C14_fast_full_agree_ast, C14_property, C14_io); character level: "
              "split/strip/constant replacement recover the operand list from any blank layout. The models (AST level, literal tables "
              "regenerated from the source) are tied to the two real readers by correspondence on rendered texts; the property is also "
              "judged per case by the Coq oracle on what the real readers returned.")
LEVEL_NOTE = ("Trusted: Coq kernel + vm_compute, std++, the harness renderer/subset reader (text <-> AST), translator plug-in fastv.py "
              "(patterns captured from a live call, literal lists by AST shape, fail closed). The regex scans (instance, pin, assign, "
              "keyword patterns) and Lark's LALR parser are tied by correspondence on the rendered texts, not proved; split(',')/strip() "
              "are proved and tied to Python by CSplit cases. Bundled netlists above 40 nodes are compared in Python only (support).")
TECHNIQUE = "Coq models of both readers + regenerated literal/pattern tables with proof obligations + vm_compute correspondence and oracle"
