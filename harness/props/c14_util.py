"""C14 helpers: subset ASTs of structural Verilog, a layout-randomising renderer, the well-formedness guard
(Python twin of `in_subset` in Model/FastVerilog.v) and a Python twin of the comparison oracle (used only for the
bundled netlists that are too large for vm_compute; everything else is judged in Coq).

AST (JSON):  {"name": str, "ports": [str], "items": [item], "bbdefs": [[name, [ins], [outs]]]}
item:        ["input"|"output"|"wire", [nets]]
             ["gate", type, inst, [operand]]           operand = net | "1'b0" | "1'b1"   (first operand = driven net)
             ["assign", lhs, rhs]                      rhs = net | constant spelling
             ["inst", bbname, inst, [[pin, net|const|None]]]     None = `.p()`; a pin may also be omitted altogether
"""
import re

PRIMS = ["buf", "and", "or", "xor", "not", "nand", "nor", "xnor"]
MULTI = ["and", "or", "xor", "nand", "nor", "xnor"]
C0 = ["1'b0"]
C1 = ["1'b1"]

STRESS_NAMES = ["xinput", "outputy", "wire_a", "input_x", "inputx", "an_output", "xoutput", "assignx", "myassign", "xwire", "modulex",
                "tie0", "tie1", "tie_0", "tie_1", "tie_x", "tie_0_0", "tie0_1", "tie_1_0", "tie", "and_a_b", "not_a", "buf_1", "xor2",
                "N1", "G12gat", "a_", "b0", "b1", "h0", "Z", "n__3", "x1_y2", "_00_", "_n1", "_", "__x", "tie0_0", "tie1_0", "tie_x_0"]
PLAIN = ["a", "b", "c", "d", "e", "f", "g", "h", "i0", "i1", "n1", "n2", "n3", "w_1", "w_2", "o1", "o2", "q", "r", "s", "t", "u", "v", "y", "z"]
INSTS = ["g1", "g2", "U3", "u_4", "NAND2_0", "g_5", "i6", "xinput7", "inst8", "output9x", "_g10_", "_11", "g11", "g12", "g13", "g14", "g15", "g16"]
BBLIB = [["ff", ["clk", "d"], ["q"]], ["dff", ["CK", "D"], ["Q", "QN"]], ["sram", ["a0", "a1", "we"], ["dout"]], ["lat", ["d"], ["q"]],
         ["src", [], ["o"]], ["snk", ["i"], []]]


def vary_bb(rng, bb):
    """the same cell name with other pins: more pins, fewer pins, or inputs and outputs swapped"""
    name, ins, outs = bb[0], list(bb[1]), list(bb[2])
    kinds = ["more"] + (["fewer"] if len(ins) + len(outs) > 1 else []) + (["swap"] if ins and outs else [])
    k = rng.choice(kinds)
    if k == "more":
        if rng.random() < 0.5:
            outs.append("QN2" if "QN2" not in outs else "Q3")
        else:
            ins.append("EN" if "EN" not in ins else "EN2")
        if rng.random() < 0.3:
            outs.append("so")
    elif k == "fewer":
        (ins if ins and (not outs or rng.random() < 0.5) else outs).pop()
    else:
        ins, outs = outs, ins
    return [name, ins, outs], k


def is_const(s):
    return s is not None and "'" in s


# ---------------------------------------------------------------- generator
def gen_ast(rng, size="small", stress=0.35, p_const=0.15, p_bb=0.5, p_assign=0.5, pardup=0.0, p_cycle=0.0, bblib=None):
    """A random AST inside the documented subset (well-formed by construction unless weird > 0)."""
    pool = list(PLAIN)
    rng.shuffle(pool)
    st = list(STRESS_NAMES)
    rng.shuffle(st)
    names = []
    while len(names) < 40 and (pool or st):
        src = st if (st and rng.random() < stress) or not pool else pool
        names.append(src.pop())
    fresh = iter(names)
    n_in = rng.randint(1, 4 if size == "small" else 6)
    n_gate = rng.randint(1, 6 if size == "small" else 14)
    inputs = [next(fresh) for _ in range(n_in)]
    avail = list(inputs)             # nets with a driver (or inputs), usable as operands without creating a cycle
    items = []
    insts = list(INSTS)
    rng.shuffle(insts)
    driven = []                      # non-input driven nets
    bbdefs = []

    def operand():
        if rng.random() < p_const:
            return rng.choice(["1'b0", "1'b1"])
        if rng.random() < 0.5:
            return avail[-1 - min(len(avail) - 1, int(rng.expovariate(0.7)))]
        return rng.choice(avail)

    n_bb = 0
    for _ in range(n_gate):
        r = rng.random()
        if r < p_bb * 0.35 and n_bb < 2:
            n_bb += 1
            bb = rng.choice(bblib or BBLIB)
            if bb[0] not in [b[0] for b in bbdefs]:
                bbdefs.append(bb)
            conns = []
            new = []
            for p in bb[1]:
                k = rng.random()
                if k < 0.7:
                    conns.append([p, operand()])
                elif k < 0.85:
                    conns.append([p, None])
            for p in bb[2]:
                k = rng.random()
                if k < 0.75:
                    n = next(fresh)
                    new.append(n)
                    conns.append([p, n])
                elif k < 0.9:
                    conns.append([p, None])
            rng.shuffle(conns)
            if not conns:                       # `bb inst ();` is not in the grammar of the full parser: keep one pin, unconnected
                conns = [[(bb[1] + bb[2])[0], None]]
            items.append(["inst", bb[0], insts.pop(), conns])
            avail += new
            driven += new
        elif r < p_bb * 0.35 + p_assign * 0.3:
            n = next(fresh)
            items.append(["assign", n, operand()])
            avail.append(n); driven.append(n)
        else:
            t = rng.choice(PRIMS)
            ar = 1 if t in ("buf", "not") else rng.choice([1, 2, 2, 2, 3, 3, 4])
            ops = [operand() for _ in range(ar)]
            if rng.random() < (1 - pardup if t in ("xor", "xnor") else 0.7):
                # distinct operands (equal operands, nets or constants, are the rarer stream)
                ops = list(dict.fromkeys(ops))
            elif t not in ("buf", "not"):
                ops.insert(rng.randrange(len(ops) + 1), rng.choice(ops))
            n = next(fresh)
            items.append(["gate", t, insts.pop(), [n] + ops])
            avail.append(n); driven.append(n)
    if rng.random() < p_cycle and driven:
        # a combinational loop / use of a later net: replace one net operand by any driven net (possibly the gate's own output)
        gs = [it for it in items if it[0] == "gate" and any(not is_const(o) for o in it[3][1:])]
        if gs:
            g = rng.choice(gs)
            idx = rng.choice([i for i in range(1, len(g[3])) if not is_const(g[3][i])])
            g[3][idx] = rng.choice(driven)
            if g[1] in ("xor", "xnor") and pardup == 0.0:
                g[3][1:] = list(dict.fromkeys(g[3][1:]))
    used = set()
    for it in items:
        if it[0] == "gate":
            used |= {o for o in it[3][1:] if not is_const(o)}
        elif it[0] == "assign" and not is_const(it[2]):
            used.add(it[2])
        elif it[0] == "inst":
            bb = next(b for b in bbdefs if b[0] == it[1])
            used |= {n for p, n in it[3] if n and not is_const(n) and p in bb[1]}
    outs = [n for n in driven if n not in used or rng.random() < 0.25]
    if not outs and driven:
        outs = [driven[-1]]
    wires = [n for n in driven if n not in outs and rng.random() < 0.8]
    if rng.random() < 0.2:
        wires.append(next(fresh))            # declared, never used
    ports = inputs + outs
    rng.shuffle(ports)

    def chunks(l):
        l = list(l); rng.shuffle(l); out = []
        while l:
            k = rng.randint(1, 3); out.append(l[:k]); l = l[k:]
        return out
    decls = [["input", c] for c in chunks(inputs)] + [["output", c] for c in chunks(outs)] + [["wire", c] for c in chunks(wires)]
    mode = rng.random()
    if mode < 0.5:
        rng.shuffle(items)
        body = decls + items                 # declarations first (writer style), statements in any order
    else:
        body = decls + items
        rng.shuffle(body)                    # anything anywhere: use before declaration and before definition
    name = rng.choice(["top", "c17", "m_1", "xinput", "tie0", "Top2", "wire_m"])
    return {"name": name, "ports": ports, "items": body, "bbdefs": bbdefs}


# ---------------------------------------------------------------- well-formedness guard (twin of `in_subset` in FastVerilog.v)
IDENT = re.compile(r"^[A-Za-z_][A-Za-z0-9_]*$")
IDENT_L = re.compile(r"^[A-Za-z][A-Za-z0-9_]*$")


def wf(ast):
    """None if the AST is inside the documented subset as delimited in docs/C14.md, else the reason."""
    bbs = {b[0]: b for b in ast["bbdefs"]}
    inputs, outputs, drivers, used = [], [], [], []
    insts = []
    for it in ast["items"]:
        k = it[0]
        if k == "input":
            inputs += it[1]
        elif k == "output":
            outputs += it[1]
        elif k == "wire":
            pass
        elif k == "gate":
            if it[1] not in PRIMS:
                return "unknown primitive"
            ops = it[3]
            if len(ops) < 2 or is_const(ops[0]):
                return "gate without driven net or operand"
            if it[1] in ("buf", "not") and len(ops) != 2:
                return "buf/not arity"
            drivers.append(ops[0]); insts.append(it[2])
            nets = [o for o in ops[1:] if not is_const(o)]
            used += nets
            if any(is_const(o) and o not in C0 + C1 for o in ops[1:]):
                return "constant spelling"
        elif k == "assign":
            if is_const(it[1]):
                return "assign to constant"
            if is_const(it[2]) and it[2] not in C0 + C1:
                return "constant spelling"
            drivers.append(it[1])
            if not is_const(it[2]):
                used.append(it[2])
        elif k == "inst":
            if it[1] in PRIMS or it[1] not in bbs:
                return "undefined blackbox"
            b = bbs[it[1]]
            insts.append(it[2])
            pins = [p for p, _ in it[3]]
            if not pins:
                return "empty connection list"
            if len(set(pins)) != len(pins):
                return "pin twice"
            for p, n in it[3]:
                if p not in b[1] and p not in b[2]:
                    return "unknown pin"
                if n is None:
                    continue
                if p in b[2]:
                    if is_const(n):
                        return "constant on output pin"
                    drivers.append(n)
                else:
                    if is_const(n):
                        if n not in C0 + C1:
                            return "constant spelling"
                    else:
                        used.append(n)
    if len(set(insts)) != len(insts):
        return "instance name twice"
    if len(set(inputs)) != len(inputs) or len(set(outputs)) != len(outputs):
        return "declared twice"
    if set(inputs) & set(outputs):
        return "input and output"
    if len(set(drivers)) != len(drivers):
        return "net driven twice"
    if set(drivers) & set(inputs):
        return "input driven"
    if not set(outputs) <= set(drivers):
        return "undriven output"
    if not set(used) <= set(drivers) | set(inputs):
        return "floating net"
    if set(ast["ports"]) != set(inputs) | set(outputs) or len(set(ast["ports"])) != len(ast["ports"]):
        return "port list"
    return None


# ---------------------------------------------------------------- renderer
WS0 = ["", "", "", " ", " ", "  ", "\t", "\n", " \n  ", "\n\n", "\t "]
WS1 = [" ", " ", " ", "  ", "\t", "\n", " \n  ", "\n\t", "   "]


def render(ast, rng, style="random"):
    """Text of the AST.  style 'writer': the library writer's layout; 'random': arbitrary blanks, tabs and newlines
    everywhere except between a closing `)` and its `;`."""
    if style == "writer":
        w0 = lambda: ""
        w1 = lambda: " "
        sep = lambda: "\n  "
        comma = lambda: ", "
    else:
        w0 = lambda: rng.choice(WS0)
        w1 = lambda: rng.choice(WS1)
        sep = w0
        comma = lambda: w0() + "," + w0()
    out = [w0() if style != "writer" else "", "module", w1(), ast["name"], w0() if style != "writer" else " ", "(", w0(),
           comma().join(ast["ports"]), w0(), ");"]
    for it in ast["items"]:
        out.append(sep())
        k = it[0]
        if k in ("input", "output", "wire"):
            out += [k, w1(), comma().join(it[1]), w0(), ";"]
        elif k == "gate":
            out += [it[1], w1(), it[2], w0(), "(", w0(), comma().join(it[3]), w0(), ");"]
        elif k == "assign":
            out += ["assign", w1(), it[1], w0(), "=", w0(), it[2], w0(), ";"]
        elif k == "inst":
            pins = [".%s%s%s(%s%s%s)" % (w0(), p, w0(), w0(), n if n is not None else "", w0() if n is not None else w0()) for p, n in it[3]]
            out += [it[1], w1(), it[2], w0(), "(", w0(), comma().join(pins), w0(), ");"]
    out += [sep() if style != "writer" else "\n", "endmodule", "\n" if style == "writer" else w0()]
    return "".join(out)


# ---------------------------------------------------------------- Python twin of the oracle (support only)
def untie(d):
    """rename the constant nodes of a dump canonically"""
    ren = {}
    for n, t, _, _ in d["nodes"]:
        if t in ("0", "1", "x"):
            ren[n] = "1'b" + t
    nodes = sorted([ren.get(n, n), t, o, sorted(ren.get(f, f) for f in fi)] for n, t, o, fi in d["nodes"])
    return {"name": d["name"], "nodes": nodes, "bbs": sorted(d["bbs"])}


def py_same(df, dl):
    """fast dump vs full dump: identical apart from the names of the constant nodes"""
    return untie(df) == untie(dl)


# ---------------------------------------------------------------- subset reader for given texts (bundled netlists, corpus)
TOK = re.compile(r"\s+|([A-Za-z_][A-Za-z0-9_]*|1'[bhd][01x]|[(),;.=])|(.)", re.S)


def strip_comments(text):
    return re.sub(r"//[^\n]*\n|/\*.*?\*/", "\n", text, flags=re.S)


def parse_subset(text, bbdefs=None):
    """Text -> (AST, None) when the text is one module of the subset grammar, else (None, reason).  Blackbox definitions that
    are not given are inferred from the pins (Q/QN/q/qn/o/out/dout are outputs)."""
    toks = []
    for m in TOK.finditer(text):
        if m.group(2):
            return None, f"character {m.group(2)!r} outside the subset"
        if m.group(1):
            toks.append(m.group(1))
    pos = 0

    def peek():
        return toks[pos] if pos < len(toks) else None

    def eat(t=None):
        nonlocal pos
        if pos >= len(toks) or (t is not None and toks[pos] != t):
            raise SyntaxError(f"expected {t!r} at token {pos}: {toks[pos:pos + 4]}")
        pos += 1
        return toks[pos - 1]

    def ident():
        t = eat()
        if not IDENT.match(t):
            raise SyntaxError(f"identifier expected, got {t!r}")
        return t

    def idlist(end):
        out = [ident()]
        while peek() == ",":
            eat(",")
            out.append(ident())
        eat(end)
        return out
    known = {b[0]: b for b in (bbdefs or [])}
    inferred = {}
    try:
        eat("module")
        name = ident()
        eat("(")
        ports = idlist(")")
        eat(";")
        items = []
        while peek() != "endmodule":
            k = eat()
            if k in ("input", "output", "wire"):
                items.append([k, idlist(";")])
            elif k == "assign":
                l = ident(); eat("="); r = eat()
                if not (IDENT.match(r) or "'" in r):
                    raise SyntaxError("assign of an expression")
                eat(";")
                items.append(["assign", l, r])
            elif IDENT.match(k):
                inst = ident()
                eat("(")
                if peek() == ".":
                    conns = []
                    while True:
                        eat("."); p = ident(); eat("(")
                        n = None
                        if peek() != ")":
                            n = eat()
                            if not (IDENT.match(n) or "'" in n):
                                raise SyntaxError("expression on a pin")
                        eat(")")
                        conns.append([p, n])
                        if peek() == ",":
                            eat(","); continue
                        break
                    eat(")"); eat(";")
                    if k in PRIMS:
                        raise SyntaxError("primitive with named ports")
                    items.append(["inst", k, inst, conns])
                    if k not in known:
                        d = inferred.setdefault(k, [k, [], []])
                        for p, _ in conns:
                            tgt = d[2] if p in ("Q", "QN", "q", "qn", "o", "out", "dout") else d[1]
                            if p not in tgt:
                                tgt.append(p)
                else:
                    ops = []
                    while True:
                        o = eat()
                        if not (IDENT.match(o) or "'" in o):
                            raise SyntaxError("expression as operand")
                        ops.append(o)
                        if peek() == ",":
                            eat(","); continue
                        break
                    eat(")"); eat(";")
                    if k not in PRIMS:
                        raise SyntaxError("positional ports on a non-primitive")
                    items.append(["gate", k, inst, ops])
            else:
                raise SyntaxError(f"unexpected token {k!r}")
        eat("endmodule")
        if pos != len(toks):
            raise SyntaxError("text after endmodule")
    except SyntaxError as e:
        return None, str(e)
    used = {it[1] for it in items if it[0] == "inst"}
    bbs = [known[k] for k in known if k in used] + [[k, sorted(v[1]), sorted(v[2])] for k, v in inferred.items()]
    return {"name": name, "ports": ports, "items": items, "bbdefs": bbs}, None


def count_nodes(ast):
    n = 0
    for it in ast["items"]:
        if it[0] == "input":
            n += len(it[1])
        elif it[0] in ("gate", "assign"):
            n += 1
        elif it[0] == "inst":
            b = next(b for b in ast["bbdefs"] if b[0] == it[1])
            n += len(b[1]) + len(b[2]) + len(it[3])
    return n
