"""C15: bench reader and writer are faithful."""
import json

import lib
from lib import cs, csl, cl, ccirc

ID = "C15"
RUN_MODULE = "Run.Run_C15"
GEN_FILES = ["Gen_bench.v", "Gen_types.v", "Gen_lint.v"]
RULE = ("reader: random acyclic bench line lists (1-4 INPUT, 0-2 DFF incl. DFF fed by a later DFF, 1-7 gate lines over every gate name of the "
        "dialect in upper and lower case, BUF/BUFF, operands repeated 2-3 times, OUTPUT of any net incl. inputs) shuffled into any line order, "
        "rendered with random blanks/tabs/newlines wherever the scan patterns allow them, comment and empty lines; a malformed stream "
        "(unknown or mixed-case gate, undefined operand/output, nets defined twice, BUF with two operands, empty or digit-initial operands, "
        "DFF with two operands); comment lines and trailing comments incl. commented-out statements; writer/round trip: circuit names that look like statements,  random lint-clean DAGs with and without constant nodes, outputs that are inputs, one "
        "circuit per gate type x arity 1..4, plus circuits outside the guard (x constant, blackbox, no input); "
        "non-trivial = at least one gate line / gate node; distinct = canonical input hash")
EXPLANATION = ("line-AST reader/writer models mirrored on the construction API, proved to denote the bench equations (closed form), tied to io.py by "
               "regenerated tables and correspondence; the oracle evaluates the text's own equations against the circuit that was returned")
SHARD = 20
HASHSEEDS = {"quick": [0, 1], "thorough": [0, 1, 2]}

GATE_NAMES = ["buf", "buff", "not", "and", "nand", "or", "nor", "xor", "xnor"]
MULTI = ["and", "nand", "or", "nor", "xor", "xnor"]
STRESS = ["input1", "OUTPUT_x", "dff", "AND", "q_dff", "buf", "xnor_1", "INPUT", "output", "Z9_", "a_dff", "nOT"]


# ------------------------------------------------------------------ line ASTs
def names_for(rng, k):
    style = rng.choice(["short", "plain", "under", "stress", "caps"])
    if style == "stress":
        pool = STRESS[:]
        rng.shuffle(pool)
        return (pool + [f"s{i}" for i in range(k)])[:k]
    if style == "caps":
        return [f"G{i}gat" if i % 2 else f"N{i}" for i in range(k)]
    return [lib.NAME_POOLS[style](i) for i in range(k)]


def case_of(rng, g):
    return g.upper() if rng.random() < 0.5 else g


def gen_lines(rng, tier):
    """a well-formed, combinationally acyclic line list in random order"""
    n_in = rng.randint(1, 4)
    n_dff = rng.choice([0, 0, 1, 1, 2]) if n_in <= 3 else rng.choice([0, 1])
    n_gate = rng.randint(1, 7 if tier == "quick" else 9)
    names = names_for(rng, n_in + n_dff + n_gate)
    ins, qs, gs = names[:n_in], names[n_in:n_in + n_dff], names[n_in + n_dff:]
    # a flop output that nothing but another flop reads exists only after the DFF pass has created it (fix 87362c2)
    hidden = qs[1] if len(qs) == 2 and rng.random() < 0.5 else None
    avail = ins + [q for q in qs if q != hidden]
    lines = [["I", n] for n in ins]
    for net in gs:
        g = rng.choice(GATE_NAMES)
        if g in ("buf", "buff", "not"):
            ops = [rng.choice(avail)]
        else:
            ar = rng.choice([1, 2, 2, 2, 3, 3, 4])
            ops = [avail[-1 - min(len(avail) - 1, int(rng.expovariate(0.7)))] if rng.random() < 0.5 else rng.choice(avail) for _ in range(ar)]
            if rng.random() < 0.3:      # repeated operands: XOR(a, a, b), AND(a, a), XNOR(a, a)
                o = rng.choice(ops)
                ops = ops + [o] * rng.choice([1, 1, 2])
                if rng.random() < 0.3:
                    ops = [o] * rng.choice([2, 3, 4])
                rng.shuffle(ops)
        lines.append(["G", net, case_of(rng, g), ops])
        avail.append(net)
    for q in qs:
        lines.append(["D", q, hidden if hidden and q == qs[0] else rng.choice(avail)])   # any net, incl. its own output and a later DFF's output
    if hidden:
        avail.append(hidden)
    used = {o for l in lines if l[0] == "G" for o in l[3]} | {l[2] for l in lines if l[0] == "D"}
    outs = [n for n in avail if (n not in used and n not in ins) or rng.random() < 0.2]
    if not outs:
        outs = [avail[-1]]
    if rng.random() < 0.1:
        outs.append(outs[0])                           # an output declared twice is harmless
    lines += [["O", n] for n in outs]
    if rng.random() < 0.85:
        rng.shuffle(lines)                             # any order: outputs before definitions, uses before definitions
    return lines


def gen_malformed(rng, tier):
    lines = gen_lines(rng, tier)
    nets = [l[1] for l in lines if l[0] in ("I", "G", "D")]
    kind = rng.choice(["unknown_gate", "mixed_case", "undef_operand", "undef_dff_operand", "undef_output", "input_twice", "gate_twice",
                       "input_and_gate", "buf2", "empty_operand", "digit_operand", "dff2", "dff_twice", "gate_and_dff", "no_operands"])
    gl = [l for l in lines if l[0] == "G"]
    pos = rng.randint(0, len(lines))
    if kind == "unknown_gate":
        rng.choice(gl)[2] = rng.choice(["MUX", "BUFFER", "xor2", "NAND2", "DFFR", "ANDN"])
    elif kind == "mixed_case":
        rng.choice(gl)[2] = rng.choice(["Xor", "And", "Buff", "nOR", "Not"])
    elif kind == "undef_operand":
        l = rng.choice(gl); l[3] = l[3][:-1] + ["undef_net"] if l[2].lower() not in ("buf", "buff", "not") else ["undef_net"]
    elif kind == "undef_dff_operand":
        lines.insert(pos, ["D", "qq_new", "undef_net"])
    elif kind == "undef_output":
        lines.insert(pos, ["O", "undef_net"])
    elif kind == "input_twice":
        lines.insert(pos, ["I", rng.choice([l[1] for l in lines if l[0] == "I"])])
    elif kind == "gate_twice":
        l = rng.choice(gl); lines.insert(pos, ["G", l[1], case_of(rng, rng.choice(MULTI)), [rng.choice(nets), rng.choice(nets)]])
    elif kind == "input_and_gate":
        lines.insert(pos, ["G", rng.choice([l[1] for l in lines if l[0] == "I"]), case_of(rng, rng.choice(GATE_NAMES)), [rng.choice(nets)]])
    elif kind == "buf2":
        lines.insert(pos, ["G", "bb_new", case_of(rng, rng.choice(["buf", "buff", "not"])), [nets[0], rng.choice(nets)]])
    elif kind == "empty_operand":
        l = rng.choice(gl); l[3] = l[3] + [""]
    elif kind == "digit_operand":
        l = rng.choice(gl); l[3] = l[3][:-1] + ["1x"]
    elif kind == "dff2":
        lines.insert(pos, ["D", "qq_new", nets[0] + "," + rng.choice(nets)])
    elif kind == "dff_twice":
        q = "qq_new"; lines.insert(pos, ["D", q, nets[0]]); lines.insert(rng.randint(0, len(lines)), ["D", q, rng.choice(nets)])
    elif kind == "gate_and_dff":
        lines.insert(pos, ["D", rng.choice(gl)[1], nets[0]])
    elif kind == "no_operands":
        rng.choice(gl)[3] = []
    return lines, kind


def ws(rng, nl=False):
    r = rng.random()
    if r < 0.55:
        return ""
    if r < 0.8:
        return " "
    if r < 0.9:
        return "\t"
    if r < 0.95 or not nl:
        return "  "
    return "\n"


# comment texts: statements of the dialect over fresh and over used names must be ignored
COMMENTS = ["comment", " 5 inputs", "INPUT(zz_c)", "OUTPUT(zz_c)", "zz_c = AND(a, b)", "a = NOT(a)", "n0 = DFF(n1)", "input(a)", "b = XOR(b, b)",
            " g = BUFF(zz_c) # x", "OUTPUT(a)", "q = dff(q)"]


def render(rng, lines):
    """text of a line list; blanks only where the dialect (the scan patterns) allows them: around '=', around the name of an
    INPUT/OUTPUT line and before its parenthesis, anywhere inside an operand list (blank, tab, newline)"""
    plain = rng.random() < 0.3
    w = (lambda nl=False: "") if plain else (lambda nl=False: ws(rng, nl))
    out = []
    for l in lines:
        if l[0] in ("I", "O"):
            kw = "INPUT" if l[0] == "I" else "OUTPUT"
            kw = kw.lower() if rng.random() < 0.3 else kw
            s = kw + w() + "(" + w(True) + l[1] + w(True) + ")"
        elif l[0] == "G":
            sep = ", " if plain else None
            ops = (sep or ",").join((w(True) + o + w(True)) if sep is None else o for o in l[3])
            s = l[1] + (" = " if plain else w(True) + "=" + w(True)) + l[2] + "(" + ops + ")"
        else:
            s = l[1] + (" = " if plain else w(True) + "=" + w(True)) + rng.choice(["DFF", "dff"]) + "(" + w(True) + l[2] + w(True) + ")"
        if rng.random() < 0.06:
            s += rng.choice([" ", "\t", ""]) + "#" + rng.choice(COMMENTS)      # trailing comment
        out.append(s)
        r = rng.random()
        if not plain and r < 0.08:
            out.append("")
        elif r < 0.2:
            out.append(rng.choice(["#", "# ", "\t#"]) + rng.choice(COMMENTS))    # comment line, often a commented-out statement
    head = "# " + rng.choice(["c17", "top", "bench 1", "INPUT(zz_h)", "a = OR(a, a)"]) + "\n" if rng.random() < 0.5 else ""
    sep = "\n" if rng.random() < 0.9 else rng.choice(["\r\n", " \n", "\n\n"])
    return head + sep.join(out) + ("\n" if rng.random() < 0.5 else "")


# ------------------------------------------------------------------ circuits for the writer / round trip
def gen_circuit(rng, tier):
    kind = rng.choice(["dag", "dag", "dag", "consts", "consts", "consts", "in_out", "x_const", "blackbox", "no_input"])
    n_in = rng.randint(1, 4)
    d = lib.rand_dag(rng, n_in, rng.randint(1, 7 if tier == "quick" else 10), max_fanin=4,
                     p_const=0.9 if kind in ("consts", "no_input") else 0.15, consts=("0", "1"))
    if kind == "in_out":
        for n in d["nodes"]:
            if n[1] == "input" and rng.random() < 0.6:
                n[2] = True
    if kind == "x_const":
        nm = lib_fresh(d, "xc")
        d["nodes"].append([nm, "x", True, []])
    if kind == "blackbox":
        d = lib.add_flop(rng, d)
    if rng.random() < 0.25:      # the writer puts the name into a comment line
        ins = [n[0] for n in d["nodes"] if n[1] == "input"] or ["a"]
        gs = [n[0] for n in d["nodes"] if n[1] != "input"] or ["g"]
        d["name"] = rng.choice(["INPUT(zz_n)", "OUTPUT(%s)" % ins[0], "%s = AND(%s, %s)" % (gs[0], ins[0], ins[-1]), "zz_n = NOT(%s)" % ins[0],
                                "%s = DFF(%s)" % (gs[-1], ins[0]), "c17 # x", "input(%s)" % gs[0]])
    if kind == "no_input":
        ins = {n[0] for n in d["nodes"] if n[1] == "input"}
        consts = [n[0] for n in d["nodes"] if n[1] in ("0", "1")]
        if consts:
            for n in d["nodes"]:
                n[3] = sorted({(rng.choice(consts) if f in ins else f) for f in n[3]})
            d["nodes"] = [n for n in d["nodes"] if n[0] not in ins]
    return {"fn": "round", "circuit": d, "kind": kind}


def lib_fresh(d, base):
    names = {n[0] for n in d["nodes"]}
    k = 0
    while f"{base}{k}" in names:
        k += 1
    return f"{base}{k}"


def gen_systematic():
    """one circuit per gate type x arity (1..4), with and without the gate being an output next to a constant"""
    out = []
    for t in MULTI + ["buf", "not"]:
        for ar in ([1, 2, 3, 4] if t in MULTI else [1]):
            nodes = [[f"i{k}", "input", k == 0, []] for k in range(4)]
            nodes.append(["g", t, True, [f"i{k}" for k in range(ar)]])
            nodes.append(["k0", "0", False, []])
            nodes.append(["k1", "1", True, []])
            nodes.append(["h", "or", True, ["g", "k0"]])
            out.append({"fn": "round", "circuit": {"name": "top", "nodes": nodes, "bbs": []}, "kind": f"sys"})
    return out


def generate(rng, tier):
    n = 110 if tier == "quick" else 600
    out = []
    for _ in range(n):
        lines = gen_lines(rng, tier)
        out.append({"fn": "read", "lines": lines, "text": render(rng, lines), "kind": "wf"})
    for _ in range(n // 3):
        lines, kind = gen_malformed(rng, tier)
        out.append({"fn": "read", "lines": lines, "text": render(rng, lines), "kind": kind})
    out += [gen_circuit(rng, tier) for _ in range(n)]
    out += gen_systematic()
    return out


# ------------------------------------------------------------------ implementation driver
def tokenise(text):
    """the writer's text -> line list (independent of the reader's patterns: one statement per line)"""
    lines = []
    for raw in text.split("\n"):
        s = raw.strip()
        if not s or s.startswith("#"):
            continue
        if s.startswith("INPUT(") and s.endswith(")"):
            lines.append(["I", s[6:-1]])
        elif s.startswith("OUTPUT(") and s.endswith(")"):
            lines.append(["O", s[7:-1]])
        elif " = " in s and s.endswith(")") and "(" in s:
            net, rhs = s.split(" = ", 1)
            g, ops = rhs[:-1].split("(", 1)
            lines.append(["G", net, g, [o for o in ops.split(", ")] if ops else []])
        else:
            raise RuntimeError(f"writer emitted a line outside the line grammar: {raw!r}")
    return lines


def impl(case):
    import circuitgraph as cg
    if case["fn"] == "read":
        try:
            c = cg.io.bench_to_circuit(case["text"], "top")
        except Exception as e:
            return {"exc": type(e).__name__}
        return {"out": lib.dump_circuit(c)}
    c = lib.build_circuit(case["circuit"])
    try:
        text = cg.io.circuit_to_bench(c)
    except Exception as e:
        return {"wexc": type(e).__name__}
    obs = {"wtext": text, "wlines": tokenise(text)}
    try:
        r = cg.io.bench_to_circuit(text, c.name)
        obs["out"] = lib.dump_circuit(r)
    except Exception as e:
        obs["exc"] = type(e).__name__
    return obs


# ------------------------------------------------------------------ Coq printing
def cline(l):
    if l[0] == "I":
        return f"BInput {cs(l[1])}"
    if l[0] == "O":
        return f"BOutput {cs(l[1])}"
    if l[0] == "G":
        return f"BGate {cs(l[1])} {cs(l[2])} {csl(l[3])}"
    return f"BDff {cs(l[1])} {cs(l[2])}"


def clines(lines):
    return cl(cline(l) for l in lines)


def cexc(name):
    return f"(Raise {name})" if name in ("ValueError", "KeyError", "IndexError", "StopIteration", "NotImplementedError") else "(Raise OtherError)"


def cres_circ(obs):
    return f"(Ok {ccirc(obs['out'])})" if "out" in obs else cexc(obs["exc"])


def printable(s):
    return all(32 <= ord(ch) < 127 for ch in s)


def to_coq(case, obs):
    if case["fn"] == "read":
        return f"CRead {cs('top')} {cs(case['text'])} {clines(case['lines'])} {cres_circ(obs)}"
    d = case["circuit"]
    if "wexc" in obs:
        return f"CRound {ccirc(d)} (mk_ord [] [] [] [] {cs('')}) {cs('')} {cexc(obs['wexc'])} (Raise OtherError)"
    wl = obs["wlines"]
    types = {n[0]: n[1] for n in d["nodes"]}
    o_in = [l[1] for l in wl if l[0] == "I"]
    o_out = [l[1] for l in wl if l[0] == "O"]
    gl = [l for l in wl if l[0] == "G"]
    o_fi = [(l[1], l[3]) for l in gl if types.get(l[1]) not in ("0", "1")]
    consts = [l for l in gl if types.get(l[1]) in ("0", "1")]
    o_const = consts[0][3][0] if consts and consts[0][3] else (o_in[0] if o_in else "")
    ord_ = f"(mk_ord {csl(o_in)} {csl(o_out)} {csl([l[1] for l in gl])} {cl('(%s,%s)' % (cs(n), csl(f)) for n, f in o_fi)} {cs(o_const)})"
    return f"CRound {ccirc(d)} {ord_} {cs(obs['wtext'])} (Ok {clines(wl)}) {cres_circ(obs)}"


# ------------------------------------------------------------------ evidence statistics
def nontrivial(case, obs):
    if case["fn"] == "read":
        return any(l[0] == "G" for l in case["lines"])
    return any(n[1] in lib.GATES for n in case["circuit"]["nodes"])


def classify(case, obs):
    if case["fn"] == "read":
        ks = ["read:" + case["kind"], "read-outcome:" + (obs.get("exc") or "ok")]
        for l in case["lines"]:
            if l[0] == "G":
                ks.append(f"read-gate:{l[2].lower()}/{min(len(l[3]), 4)}")
                if len(set(l[3])) < len(l[3]):
                    ks.append("read:repeated-operand")
                if l[2].isupper():
                    ks.append("read:upper-case")
            elif l[0] == "D":
                ks.append("read:dff")
        if "#" in case["text"]:
            ks.append("read:comments")
        pos = {l[1]: i for i, l in enumerate(case["lines"]) if l[0] in ("I", "G", "D")}
        if any(l[0] == "D" and l[2] in pos and any(m[0] == "D" and m[1] == l[2] and pos[m[1]] > pos[l[1]] for m in case["lines"]) for l in case["lines"]):
            ks.append("read:dff-fed-by-later-dff")
        if any(l[0] == "O" and pos.get(l[1], -1) > i for i, l in enumerate(case["lines"])):
            ks.append("read:output-before-definition")
        return sorted(set(ks))
    ks = ["round:" + case["kind"], "round-outcome:" + (obs.get("wexc") and "writer-" + obs["wexc"] or obs.get("exc") or "ok")]
    if case["circuit"].get("name") != "top":
        ks.append("round:name-like-statement")
    for n in case["circuit"]["nodes"]:
        if n[1] in lib.GATES:
            ks.append(f"round-gate:{n[1]}/{min(len(n[3]), 4)}")
        elif n[1] in ("0", "1", "x"):
            ks.append("round:const-" + n[1])
        elif n[1] == "input" and n[2]:
            ks.append("round:output-is-input")
    return sorted(set(ks))


def finding_signature(case, obs):
    return None


def mutate_case(rng, case):
    if case["fn"] == "read":
        lines = json.loads(json.dumps(case["lines"]))
        if len(lines) > 2 and rng.random() < 0.5:
            del lines[rng.randrange(len(lines))]
        else:
            rng.shuffle(lines)
        return {"fn": "read", "lines": lines, "text": render(rng, lines), "kind": "mutated"}
    return gen_circuit(rng, "quick")


CLAIMED = True
LEVEL_TEXT = ("Line-AST level, full strength. Theorems (all line lists / circuits / set orders / valuations): the regenerated gate-name alternation with "
              "BUFF and case folding is exactly the documented dialect; parity cancellation and idempotence for all operand lists; for every well-formed "
              "line list in any order the mirrored four-pass reader (every step through the construction-API model with all its checks) succeeds, the "
              "result has exactly the declared inputs and outputs, a valuation solves the text's equations iff it extends to a consistent valuation of "
              "the result, and each DFF is a registered dff instance between its D and Q nets (C15_bench_read_denotes); for every lint-clean "
              "blackbox-/pin-/x-free identifier-named circuit with an input and every set order, writer and reader succeed and the read-back circuit is "
              "the circuit itself, constants included (C15_bench_roundtrip).")
LEVEL_NOTE = ("Trusted: Coq kernel + vm_compute, std++, Base/Api.v as a model of Circuit.add/connect/add_blackbox (validated by C07), translator shapes "
              "for io.py (skeleton comparison, fail closed; the scan patterns are parsed by Python's own pattern parser into regex terms and also compared "
              "literally with the documented ones), the harness renderer and tokeniser. Character level: the scanning layer (comment removal, re.findall "
              "with the four patterns, replace/split) is modelled executably (Model/Regex.v, Model/BenchScan.v) and compared with the harness line list and "
              "with the real reader on every generated text; proved: soundness of the regex model, and for the canonical rendering (one statement per line, "
              "single blanks) of every well-formed line list that the scans recover the line list and the character-level reader returns the closed-form "
              "circuit (C15_scan_canonical, C15_read_text_canonical), and the same for EVERY layout (C15_scan_layout, C15_read_text_layout): keyword case, "
              "arbitrary whitespace at every position the patterns allow, blanks around operands, comments with any content, blank lines, several "
              "statements per line, a final unterminated comment, any line order. Texts outside the dialect (malformed stream) are compared per generated text.")
TECHNIQUE = "Coq proof (per-line denotation, closed-form reader/writer theorems) + regenerated tables + vm_compute correspondence and denotation oracle"
