"""C16: remove_unloaded deletes exactly the dead logic."""
import json

import lib
from lib import cs, cb, ccirc, csl, cpairs

ID = "C16"
RUN_MODULE = "Run.Run_C16"
GEN_FILES = ["Gen_types.v"]
RULE = ("random lint-clean DAGs (1-4 inputs, 1-7 gates, constants 0/1/x, optionally a flip-flop blackbox) with 0-4 dead-logic edits: "
        "output marks dropped, dead gates / dead chains on arbitrary nodes (sharing fan-in with live logic), inputs with no load, inputs "
        "loaded only by dead logic, gates (dead or live) named exactly like a blackbox instance, inputs / gates / constants that carry the output mark and feed only dead logic, unloaded constants, a flop whose Q buffer is dead, occasionally a combinational cycle; node order "
        "shuffled; both values of `inputs`; the call is applied twice; non-trivial = at least one node removed or at least one dead-logic "
        "edit; distinct = canonical input hash")
EXPLANATION = ("worklist model (orders explicit) proved to remove exactly the non-live removable nodes, keep survivors, be idempotent; "
               "model tied to Circuit.remove_unloaded by exact comparison of graph and returned list; liveness oracle on the implementation's result")
SHARD = 60
HASHSEEDS = {"quick": [0, 1], "thorough": [0, 1, 2, 3]}


def fresh(names, base):
    n, k = base, 0
    while n in names:
        n, k = f"{base}{k}", k + 1
    names.add(n)
    return n


def drivers(nodes):
    """nodes that may legally drive a new gate (a bb_input drives nothing, a bb_output exactly one buf)"""
    return [n[0] for n in nodes if n[1] not in ("bb_input", "bb_output")]


def edit(rng, d, names):
    nodes = d["nodes"]
    kinds = ["gate_named_like_instance"] * 3 if d["bbs"] else []
    kind = rng.choice(kinds + ["unmark", "unmark", "dead_gate", "dead_gate", "dead_chain", "unloaded_input", "dead_only_input",
                       "dead_const", "dead_flop_q", "dead_tree", "unloaded_bbout", "out_input_dead_load", "out_input_dead_load",
                       "out_gate_dead_load"])
    if kind == "unmark":
        outs = [n for n in nodes if n[2]]
        for n in rng.sample(outs, min(len(outs), rng.randint(1, 2))):
            n[2] = False
    elif kind == "dead_gate":
        dr = drivers(nodes)
        t = rng.choice(lib.GATES)
        k = 1 if t in lib.SINGLE else rng.randint(1, min(3, len(dr)))
        nodes.append([fresh(names, "dg"), t, False, sorted(rng.sample(dr, k))])
    elif kind == "dead_chain":
        prev = rng.choice(drivers(nodes))
        for _ in range(rng.randint(2, 4)):
            nm = fresh(names, "dc")
            nodes.append([nm, rng.choice(lib.SINGLE), False, [prev]])
            prev = nm
    elif kind == "dead_tree":
        # a dead gate whose two operands are themselves dead gates on live nodes
        dr = drivers(nodes)
        a = fresh(names, "dt"); b = fresh(names, "dt")
        nodes.append([a, rng.choice(lib.SINGLE), False, [rng.choice(dr)]])
        nodes.append([b, rng.choice(lib.MULTI), False, sorted(set(rng.sample(dr, min(2, len(dr)))))])
        nodes.append([fresh(names, "dt"), rng.choice(lib.MULTI), False, sorted([a, b])])
    elif kind == "unloaded_input":
        nodes.append([fresh(names, "ui"), "input", rng.random() < 0.15, []])
    elif kind == "dead_only_input":
        i = fresh(names, "di")
        nodes.append([i, "input", False, []])
        other = rng.choice(drivers(nodes))
        nodes.append([fresh(names, "dg"), rng.choice(lib.MULTI), False, sorted({i, other})])
    elif kind == "dead_const":
        nodes.append([fresh(names, "k"), rng.choice(["0", "1", "x"]), rng.random() < 0.1, []])
    elif kind == "dead_flop_q":
        if not d["bbs"]:
            inst = "ff1"
            on = rng.choice(drivers(nodes))
            q = fresh(names, "ff1_qbuf")
            if "clk" not in names:
                names.add("clk"); nodes.append(["clk", "input", False, []])
            nodes.append([f"{inst}.d", "bb_input", False, [on]])
            nodes.append([f"{inst}.clk", "bb_input", False, ["clk"]])
            nodes.append([f"{inst}.q", "bb_output", False, []])
            nodes.append([q, "buf", False, [f"{inst}.q"]])          # unloaded, not an output
            names.update({f"{inst}.d", f"{inst}.clk", f"{inst}.q"})
            d["bbs"].append([inst, "ff", ["clk", "d"], ["q"]])
            if rng.random() < 0.4:
                nodes.append([fresh(names, "dg"), "not", False, [q]])
    elif kind == "gate_named_like_instance":
        # node names and blackbox instance names are separate namespaces: a gate called exactly like an instance (dead, or live
        # with a dead load) must be handled as the node it is; the instance's pins and registry record stay
        free = [b[0] for b in d["bbs"] if b[0] not in names]
        if free:
            inst = rng.choice(free)
            names.add(inst)
            dr = drivers(nodes)
            t = rng.choice(lib.GATES)
            k = 1 if t in lib.SINGLE else rng.randint(1, min(3, len(dr)))
            live = rng.random() < 0.3
            nodes.append([inst, t, live, sorted(rng.sample(dr, k))])
            if live or rng.random() < 0.4:
                nodes.append([fresh(names, "dg"), rng.choice(lib.SINGLE), False, [inst]])
    elif kind == "out_input_dead_load":
        # a pass-through port: an input that is itself an output and whose only loads are dead logic
        i = fresh(names, "po")
        nodes.append([i, "input", True, []])
        prev = i
        for _ in range(rng.randint(1, 2)):
            nm = fresh(names, "dg")
            nodes.append([nm, rng.choice(lib.SINGLE), False, [prev]])
            prev = nm
        if rng.random() < 0.3:
            nodes.append([fresh(names, "dg"), rng.choice(lib.MULTI), False, sorted({i, rng.choice(drivers(nodes))})])
    elif kind == "out_gate_dead_load":
        # a gate (or an existing input) gets the output mark and additionally feeds dead logic only through a new dead gate
        cand = [n for n in nodes if n[1] not in ("bb_input", "bb_output")]
        g = rng.choice(cand)
        g[2] = True
        nodes.append([fresh(names, "dg"), rng.choice(lib.SINGLE), False, [g[0]]])
    elif kind == "unloaded_bbout":
        # a blackbox whose output pin has no load at all (never connected)
        inst = fresh(names, "ub")
        on = rng.choice(drivers(nodes))
        nodes.append([f"{inst}.d", "bb_input", False, [on]])
        nodes.append([f"{inst}.q", "bb_output", rng.random() < 0.1, []])
        names.update({f"{inst}.d", f"{inst}.q"})
        d["bbs"].append([inst, "lat", ["d"], ["q"]])
    return kind


def add_cycle(rng, d):
    """redirect one operand of a multi-input gate to one of its descendants"""
    nodes = d["nodes"]
    by = {n[0]: n for n in nodes}
    fo = {n[0]: [m[0] for m in nodes if n[0] in m[3]] for n in nodes}
    cand = [n for n in nodes if n[1] in lib.MULTI and n[3]]
    rng.shuffle(cand)
    for g in cand:
        desc, todo = set(), [g[0]]
        while todo:
            x = todo.pop()
            for y in fo[x]:
                if y not in desc:
                    desc.add(y); todo.append(y)
        desc = [x for x in desc if by[x][1] not in ("bb_input", "bb_output")]
        if desc or rng.random() < 0.3:
            g[3] = sorted(set(g[3]) | {rng.choice(desc) if desc else g[0]})
            return True
    return False


def gen_case(rng, big=False, huge=False):
    if huge:        # thorough tier only: a few circuits of 25-40 nodes (size-dependent behaviour)
        d = lib.rand_dag(rng, rng.randint(3, 6), rng.randint(18, 28), max_fanin=4, p_const=0.3, consts=("0", "1", "x"), p_out=0.15)
    else:
        d = lib.rand_dag(rng, rng.randint(1, 4), rng.randint(1, 9 if big else 7), max_fanin=3, p_const=0.3, consts=("0", "1", "x"),
                         p_out=rng.choice([0.1, 0.3, 0.5]))
    if rng.random() < 0.3:
        d = lib.add_flop(rng, d, unconnected=rng.random() < 0.15)
    names = {n[0] for n in d["nodes"]}
    edits = [edit(rng, d, names) for _ in range(rng.choice([0, 1, 1, 2, 2, 3, 4]))]
    if rng.random() < 0.08 and add_cycle(rng, d):
        edits.append("cycle")
    if rng.random() < 0.7:
        rng.shuffle(d["nodes"])
    return {"circuit": d, "inputs": rng.random() < 0.5, "edits": edits}


def handmade():
    """the shapes named in the property text, both flags"""
    out = []
    base = [["a", "input", False, []], ["b", "input", False, []], ["g", "and", True, ["a", "b"]]]
    shapes = {
        "unloaded_input_from_start": base + [["u", "input", False, []]],
        "input_loaded_only_by_dead": base + [["u", "input", False, []], ["d", "not", False, ["u"]]],
        "dead_chain": base + [["d1", "not", False, ["a"]], ["d2", "buf", False, ["d1"]], ["d3", "not", False, ["d2"]]],
        "dead_shares_fanin": base + [["d", "or", False, ["a", "g"]]],
        "all_dead": [["a", "input", False, []], ["b", "input", False, []], ["g", "and", False, ["a", "b"]]],
        "single_input": [["a", "input", False, []]],
        "single_output_input": [["a", "input", True, []]],
        "dead_const": base + [["k", "1", False, []], ["d", "xor", False, ["k", "a"]]],
        "output_input_loaded_only_by_dead": base + [["thru", "input", True, []], ["d", "not", False, ["thru"]], ["tap", "input", True, []]],
        "output_gate_loaded_only_by_dead": [["a", "input", False, []], ["g", "not", True, ["a"]], ["d", "buf", False, ["g"]]],
        "output_const_loaded_only_by_dead": base + [["k", "0", True, []], ["d", "not", False, ["k"]]],
        "diamond_dead": base + [["p", "not", False, ["a"]], ["q", "buf", False, ["a"]], ["r", "nand", False, ["p", "q"]]],
    }
    for name, nodes in shapes.items():
        for inp in (False, True):
            out.append({"circuit": {"name": "top", "nodes": json.loads(json.dumps(nodes)), "bbs": []}, "inputs": inp, "edits": ["hand:" + name]})
    flop = {"name": "top", "bbs": [["ff0", "ff", ["clk", "d"], ["q"]]], "nodes": [
        ["a", "input", False, []], ["clk", "input", False, []], ["n", "not", False, ["a"]],
        ["ff0.d", "bb_input", False, ["n"]], ["ff0.clk", "bb_input", False, ["clk"]], ["ff0.q", "bb_output", False, []],
        ["qb", "buf", False, ["ff0.q"]], ["dd", "not", False, ["qb"]]]}
    noq = {"name": "top", "bbs": [["u0", "lat", ["d"], ["q"]]], "nodes": [
        ["a", "input", True, []], ["u0.d", "bb_input", False, ["a"]], ["u0.q", "bb_output", False, []]]}
    same = json.loads(json.dumps(flop))
    same["nodes"][6][2] = True                                     # qb is an output: the flop is live
    same["nodes"] = same["nodes"][:7] + [["ff0", "not", False, ["a"]]]          # dead gate called like the instance
    same_live = json.loads(json.dumps(same))
    same_live["nodes"][7][2] = True
    same_live["nodes"].append(["dd", "buf", False, ["ff0"]])       # live gate called like the instance, with a dead load
    for inp in (False, True):
        out.append({"circuit": json.loads(json.dumps(same)), "inputs": inp, "edits": ["hand:dead_gate_named_like_instance"]})
        out.append({"circuit": json.loads(json.dumps(same_live)), "inputs": inp, "edits": ["hand:live_gate_named_like_instance"]})
    for inp in (False, True):
        out.append({"circuit": json.loads(json.dumps(flop)), "inputs": inp, "edits": ["hand:flop_dead_q"]})
        out.append({"circuit": json.loads(json.dumps(noq)), "inputs": inp, "edits": ["hand:bbout_unloaded_from_start"]})
    return out


def generate(rng, tier):
    n = 230 if tier == "quick" else 1500
    out = handmade() + [gen_case(rng, big=(i % 5 == 0)) for i in range(n)]
    if tier != "quick":
        out += [gen_case(rng, huge=True) for _ in range(40)]
    return out


def impl(case):
    c = lib.build_circuit(case["circuit"])
    nodes = list(c.graph)
    ords = [[n, list(c.fanin(n))] for n in nodes]

    def run():
        try:
            r = c.remove_unloaded(inputs=case["inputs"])
            return {"removed": list(r), "out": lib.dump_circuit(c)}
        except Exception as e:
            return {"exc": type(e).__name__}
    r1 = run()
    r2 = run() if "out" in r1 else None
    return {"nodes": nodes, "ords": [o for o in ords if o[1]], "r1": r1, "r2": r2}


EXN = ("ValueError", "KeyError", "IndexError", "StopIteration", "NotImplementedError")


def cobs(r):
    if r is None:
        return "(Raise OtherError)"
    if "exc" in r:
        return f"(Raise {r['exc']})" if r["exc"] in EXN else "(Raise OtherError)"
    return f"(Ok ({ccirc(r['out'])},{csl(r['removed'])}))"


def to_coq(case, obs):
    return (f"CRu {ccirc(case['circuit'])} {cb(case['inputs'])} {csl(obs['nodes'])} {cpairs(obs['ords'], cs, csl)} "
            f"{cobs(obs['r1'])} {cobs(obs['r2'])}")


def nontrivial(case, obs):
    return "removed" in obs["r1"] and (len(obs["r1"]["removed"]) > 0 or bool(case.get("edits")))


def classify(case, obs):
    r = obs["r1"]
    k = ["inputs=" + str(case["inputs"])]
    if "removed" in r:
        n = len(r["removed"])
        k.append("removed:" + ("0" if n == 0 else "1-2" if n <= 2 else "3-5" if n <= 5 else "6+"))
        by = {n[0]: n[1] for n in case["circuit"]["nodes"]}
        k += sorted({"removed-type:" + str(by[x]) for x in r["removed"]})
    else:
        k.append("exc:" + r["exc"])
    if case["circuit"]["bbs"]:
        k.append("blackbox")
    k += ["edit:" + e for e in case.get("edits", [])]
    return k


def finding_signature(case, obs):
    return None


def mutate_case(rng, case):
    return gen_case(rng)


CLAIMED = True
LEVEL_TEXT = ("Theorems (all closed graphs obeying connect's wiring rules, cyclic ones included for soundness; both flag values; every iteration "
              "order of the graph and of the fan-in sets): the worklist model returns a duplicate-free list, every removed node is of removable "
              "type and reaches no output / bb_input, on acyclic graphs every such node is removed, survivors keep type, fan-in and mark, a "
              "second application removes nothing, no exception and no fuel exhaustion. The three type lists are regenerated from circuit.py "
              "and proved to be the documented ones. The model is tied to Circuit.remove_unloaded by exact comparison (graph and returned "
              "list, both applications) on generated circuits; the liveness oracle judges the implementation's own result.")
LEVEL_NOTE = ("Trusted: Coq kernel + vm_compute, std++, translator shape for the three type lists, harness canonicalisation, the correspondence "
              "of the hand-written worklist model. Domain restriction stated in the theorem: a bb_input pin drives nothing (soundness) and "
              "inputs / bb_output pins have no fan-in (completeness) -- both enforced by Circuit.connect; on a graph built directly on the "
              "DiGraph with a bb_input driving a dead gate the code deletes the pin (Example C16_wiring_needed).")
TECHNIQUE = "Coq proof (worklist invariant; pigeonhole for completeness) + regenerated type lists + vm_compute correspondence and liveness oracle"
