"""C17: supergate decomposition covers the circuit with independent-input blocks (tx.supergates)."""
import lib
from lib import cs, ccirc, cl
from props import c17_util as U

ID = "C17"
RUN_MODULE = "Run.Run_C17"
GEN_FILES = ["Gen_supergates.v"]
RULE = ("lint-clean acyclic blackbox-free circuits of <= 22 nodes: fan-out-free trees, nested reconvergent cones (diamonds inside "
        "diamonds over a common stem), 2-5 outputs combining shared blocks, random DAGs with fan-in <= 2 (limit_fanin is then the "
        "identity), and a class with gates of 3-5 operands (the limited circuit is recorded by calling limit_fanin(c, 2) in the same "
        "process), every multi-operand gate type with 3, 4 and 5 operands, and a name-stress class (inputs a..h, gates m, n, ...; an "
        "inverter of m = and(a, b) is named a_b, so different node sets can have equal sorted-and-joined names), constants x/0/1 with fan-out "
        "inside the cones, inputs that are themselves limit_fanin(c0, 3|4) results or carry names g_limit_fanin_<i>; each class also in "
        "the single-output super-circuit form (<= 6 inputs). Non-trivial = at least 2 gates and a "
        "result of at least 2 supergates or a reconvergent stem inside one; distinct = canonical input hash")
EXPLANATION = ("verified checkers (shape, cover, order, independence: soundness proved for all inputs) decide the property on the list the "
               "implementation returned; the mirrored model (dominators by definition) is compared with it as a set; super-circuit "
               "equivalence by exhaustive evaluation after fill_blackbox")
SHARD = 40
HASHSEEDS = {"quick": [0, 1], "thorough": [0, 1, 2, 3]}
WIDEN = 1          # rounds of extra cases when a proof obligation or the tie breaks without an oracle failure
KINDS = ["tree", "reconv", "reconv", "multi", "multi", "dag", "dag", "wide"]


def generate(rng, tier):
    global SHARD
    SHARD = 20 if tier == "quick" else 40      # quick: more, smaller shards so that all cores are used
    n = 110 if tier == "quick" else 1200
    out = []
    for i in range(n):
        kind = KINDS[i % len(KINDS)]
        d = U.gen_case_circuit(rng, kind)
        out.append({"fn": "list", "kind": kind, "circuit": d})
    # name stress: names that are `_`-joins of other names (list form only: fill_blackbox has its own name rules)
    for i in range(n // 4):
        out.append({"fn": "list", "kind": "namejoin", "circuit": U.gen_namejoin(rng)})
    # every multi-operand type with 3..5 operands, both forms (limit_fanin really changes the circuit)
    for d in U.gen_wide_types():
        out.append({"fn": "list", "kind": "widetype", "circuit": d})
        out.append({"fn": "super", "kind": "widetype", "circuit": d})
    # constants incl. `x` inside the cones (with fan-out), both forms
    out.append({"fn": "list", "kind": "xconst", "circuit": U.xconst_demo()})
    out.append({"fn": "super", "kind": "xconst", "circuit": U.xconst_demo()})
    for i in range(n // 8):
        d = U.gen_xconst(rng)
        out.append({"fn": "list", "kind": "xconst", "circuit": d})
        if len(lib.inputs_of(d)) <= 6:
            out.append({"fn": "super", "kind": "xconst", "circuit": U.single_output(rng, lib.json.loads(lib.json.dumps(d)))})
    # two-step histories: the input is itself limit_fanin(c0, k), k = 3, 4 (done in impl), or carries names of that shape
    for i in range(n // 14):
        d = U.gen_case_circuit(rng, "wide")
        out.append({"fn": "list", "kind": "relimit", "circuit": d, "prelimit": 3 + i % 2})
        if len(lib.inputs_of(d)) <= 6 and i % 2 == 0:
            out.append({"fn": "super", "kind": "relimit", "circuit": U.single_output(rng, lib.json.loads(lib.json.dumps(d))), "prelimit": 3 + (i // 2) % 2})
        out.append({"fn": "list", "kind": "limitname", "circuit": U.gen_limitname(rng)})
    for i in range(n // 3):
        kind = KINDS[i % len(KINDS)]
        for _ in range(20):
            d = U.gen_case_circuit(rng, kind, max_nodes=14)
            if len(lib.inputs_of(d)) <= 6:
                break
        if len(lib.inputs_of(d)) > 6:
            continue
        if rng.random() < 0.9:
            d = U.single_output(rng, d)
        out.append({"fn": "super", "kind": kind, "circuit": d})
    return out


def _exc(e):
    return {"exc": type(e).__name__}


def impl(case):
    import circuitgraph as cg
    d = case["circuit"]
    c = lib.build_circuit(d)
    obs = {}
    if case.get("prelimit"):
        # the circuit under test is the result of an earlier limit_fanin(c0, k): names <g>_limit_fanin_<i> are already taken
        c = cg.tx.limit_fanin(c, case["prelimit"])
        cg.lint(c)
        d = lib.dump_circuit(c)
        obs["C"] = d
    obs["L"] = None
    try:
        # the fan-in-limited circuit supergates works on is internal; limit_fanin is deterministic for a fixed hash seed
        # (same sets built by the same calls), so the same call made here yields the same circuit
        L = lib.dump_circuit(cg.tx.limit_fanin(c, 2))
        obs["L"] = None if lib.canon(L) == lib.canon(lib.dump_circuit(c)) else L
        if case["fn"] == "list":
            r = cg.tx.supergates(c)
            obs["res"] = [lib.dump_circuit(s) for s in r]
        else:
            sc, m = cg.tx.supergates(c, construct_supercircuit=True)
            obs["super"] = lib.dump_circuit(sc)
            obs["map"] = [[k, lib.dump_circuit(v)] for k, v in m.items()]
    except Exception as e:  # library exceptions are observations; on these inputs every one is a property failure
        obs.update(_exc(e))
    return obs


def _circ(case, obs):
    return obs.get("C") or case["circuit"]


def cexc(name):
    if name in ("ValueError", "KeyError", "IndexError", "StopIteration", "NotImplementedError"):
        return f"(Raise {name})"
    return "(Raise OtherError)"


def to_coq(case, obs):
    C = ccirc(_circ(case, obs))
    L = "None" if obs.get("L") is None else f"(Some {ccirc(obs['L'])})"
    if case["fn"] == "list":
        r = cexc(obs["exc"]) if "exc" in obs else "(Ok %s)" % cl(ccirc(s) for s in obs["res"])
        return f"CList {C} {L} {r}"
    if "exc" in obs:
        r = cexc(obs["exc"])
    else:
        r = "(Ok (%s,%s))" % (ccirc(obs["super"]), cl("(%s,%s)" % (cs(k), ccirc(v)) for k, v in obs["map"]))
    return f"CSuper {C} {L} {r}"


def _limited(case, obs):
    return U.graph(obs["L"] if obs.get("L") else _circ(case, obs))


def nontrivial(case, obs):
    d = _circ(case, obs)
    ngates = sum(1 for n in d["nodes"] if n[1] not in ("input", "0", "1", "x"))
    if ngates < 2:
        return False
    sgs = obs.get("res") or [v for _, v in obs.get("map", [])]
    if len(sgs) >= 2:
        return True
    g = U.graph(d)
    return any(len(U.fanout(g, n)) > 1 for n in g)


def classify(case, obs):
    d = _circ(case, obs)
    out = [f"{case['fn']}:{case['kind']}"]
    if "exc" in obs:
        out.append(f"{case['fn']}:exc:{obs['exc']}")
    else:
        sgs = obs.get("res") or [v for _, v in obs.get("map", [])]
        out.append(f"supergates:{min(len(sgs), 8)}{'+' if len(sgs) >= 8 else ''}")
        if any(len([n for n in s["nodes"] if n[1] == "input"]) >= 2 and len(s["nodes"]) >= 5 for s in sgs):
            out.append("supergate-with-internal-reconvergence-or-depth")
    nout = sum(1 for n in d["nodes"] if n[2])
    out.append(f"outputs:{min(nout, 4)}")
    if obs.get("L"):
        out.append("limit_fanin-changed-circuit")
    g = U.graph(d)
    if any(len(U.fanout(g, n)) > 1 and g[n][0] != "input" for n in g):
        out.append("internal-fanout-stem")
    return out


def finding_signature(case, obs):
    """C17-F2: list form, >= 2 outputs, the implementation raised NetworkXUnfeasible, and the minimal cover computed by the
    twin of the model from the limited circuit has cyclic input dependencies (two cones decomposed inconsistently)."""
    if case["fn"] != "list" or obs.get("exc") != "NetworkXUnfeasible":
        return None
    L = _limited(case, obs)
    if sum(1 for n in L if L[n][1]) < 2:
        return None
    return "C17-F2" if U.model(L)[0] == "cycle" else None


def mutate_case(rng, case):
    """small circuits of a random class (the framework asks for 40 per disagreeing case: keep them cheap)"""
    if case.get("kind") == "namejoin" and case["fn"] == "list":
        return {"fn": "list", "kind": "namejoin", "circuit": U.gen_namejoin(rng, max_nodes=12)}
    kind = rng.choice(KINDS)
    d = U.gen_case_circuit(rng, kind, max_nodes=10)
    if case["fn"] == "super":
        d = U.single_output(rng, d)
    return {"fn": case["fn"], "kind": kind, "circuit": d}


CLAIMED = True
LEVEL_TEXT = ("Theorem about the mirrored model, every fan-in-limited circuit L (closed, acyclic, <= 2 operands, constants and inputs undriven, "
              "gates driven) and any number of outputs: C17_model_correct -- whenever the model returns a list, the list satisfies all four "
              "clauses of the property: C17_shape (one output each, gates carry the type and the WHOLE fan-in they have in L), "
              "C17_independence (inputs of a supergate have pairwise disjoint transitive fan-in), C17_cover_full (every gate in the cone "
              "of an output is a gate of a returned supergate: the minimal-cover filter never drops the last supergate holding a gate, by a "
              "lemma relating the dominator trees of two output cones) and the dependency order of the model's list. "
              "(Dominator theory over least closed sets, no paths.) That a list is always returned is false (C17-F2, C17_total_refuted). "
              "Theorems for all circuits and all lists: the four checkers are sound for the clauses stated over paths (C17_checkers_sound); "
              "they decide the property per run on what the implementation returned (translation validation), which together with the set "
              "comparison model = implementation ties the theorems to the code; the order of the implementation's own list is judged only "
              "this way; the hypotheses on L are decided per run (wf_limb, proved sound) and shape, independence and cover transfer to any list with "
              "the model's members (C17_agreement_transfers). The super-circuit clause is oracle-level (fill_blackbox + exhaustive evaluation). Constants of the source are "
              "regenerated on every run by a fail-closed plug-in (C17_tables_ok).")
LEVEL_NOTE = ("The model's searches and queues run on fuel and their results are certificate-checked inside the model (closure of every "
              "searched set, closure/route/depth of every grown set, distinct roots, frontier exhausted); the model has no value (OutOfFuel) if a "
              "check fails, which the correspondence run shows never happens; the proofs use only the checked facts and the leastness of the "
              "searched sets. Trusted: Coq kernel + vm_compute, std++, gen/plugins/supergates.py (statement shapes), harness canonicalisation and the recorded limit_fanin(c, 2) result (made by a second "
              "call in the same process; checked in Coq: interface, bound 2, identity when nothing exceeds the bound, and equivalence with c on all input valuations). "
              "networkx.immediate_dominators is external: the model replaces it by the definition of dominance (unreachable from the output "
              "once the dominator is removed) and the tie is the set comparison of the results. Base/Api.v fill_blackbox/add_blackbox are the "
              "C07-validated API model. List order is never compared (sets of Circuit objects iterate by id); it is judged by check_topo.")
TECHNIQUE = "regenerated constants + verified checkers (translation validation of the implementation's output) + mirrored Coq model + vm_compute correspondence"
