"""C17 helpers: generators for supergate inputs, a Python twin of the Coq model (Model/Supergates.v) and of the
specification (used only for classification, the finding signature and development probes; verdicts come from Coq)."""
import itertools

CONST = ("0", "1", "x")


# ---------------------------------------------------------------- graph helpers on dumps
def graph(d):
    """dump -> {name: (type, output, fanin set)}"""
    return {n[0]: (n[1], bool(n[2]), set(n[3])) for n in d["nodes"]}


def tfi(g, n):
    seen, st = set(), [n]
    while st:
        x = st.pop()
        for f in g[x][2]:
            if f in g and f not in seen:
                seen.add(f)
                st.append(f)
    return seen


def fanout(g, n):
    return {m for m in g if n in g[m][2]}


# ---------------------------------------------------------------- twin of the model
def subcircuit(g, nodes, modify_io=False):
    sc = {n: (g[n][0], g[n][1], g[n][2] & nodes) for n in nodes}
    if modify_io:
        out = {}
        for n, (t, o, fi) in sc.items():
            if t not in CONST and not fi:
                t = "input"
            if not any(n in sc[m][2] for m in sc):
                o = True
            out[n] = (t, o, fi)
        sc = out
    return sc


def cone_supergates(L, output):
    """supergates of one output cone: list of (root, node set, graph)"""
    nodes = tfi(L, output) | {output}
    co = {n: (t, n == output, fi) for n, (t, o, fi) in subcircuit(L, nodes).items()}
    succ = {n: set(co[n][2]) | {m for m in fanout(co, n) if m != output} for n in co}
    succ[output] -= {output}

    def reach_avoid(d):
        if d == output:
            return set()
        seen, st = {output}, [output]
        while st:
            x = st.pop()
            for y in succ[x]:
                if y != d and y not in seen:
                    seen.add(y)
                    st.append(y)
        return seen

    avoid = {d: reach_avoid(d) for d in co}
    sdom = {n: {d for d in co if d != n and n not in avoid[d]} for n in co}
    idom = {}
    for n in co:
        if n == output:
            continue
        for d in sdom[n]:
            if all(e == d or e in sdom[d] for e in sdom[n]):
                idom[n] = d
    children = {n: {m for m in idom if idom[m] == n} for n in co}
    res = []
    frontier = [output]
    while frontier:
        node = frontier.pop(0)
        sg = {node}
        fanins = list(children[node])
        while fanins:
            fi = fanins.pop(0)
            sg.add(fi)
            if len(children[fi]) > 1:
                frontier.append(fi)
            elif len(children[fi]) == 1:
                fanins.append(next(iter(children[fi])))
        g = subcircuit(co, sg, True)
        g[node] = (g[node][0], True, g[node][2])
        res.append((node, frozenset(sg), g))
    return res


def gates(g):
    return {n for n in g if g[n][0] != "input"}


def inputs(g):
    return {n for n in g if g[n][0] == "input"}


def model(L):
    """-> ("ok", list of graphs) | ("cycle", minimal cover) | ("ambiguous", ...)"""
    found = {}
    for o in sorted(n for n in L if L[n][1]):
        for root, ns, g in cone_supergates(L, o):
            if ns in found and found[ns] != g:
                return ("ambiguous", [])
            found[ns] = g
    allsg = list(found.values())
    minimal = {}
    for k, g in enumerate(allsg):
        rest = set()
        for j, h in enumerate(allsg):
            if j != k:
                rest |= gates(h)
        if set(g) - rest:
            outs = [n for n in g if g[n][1]]
            if outs[0] in minimal and minimal[outs[0]] != g:
                return ("ambiguous", [])
            minimal[outs[0]] = g
    Lin = inputs(L)
    deps = {o: {p for p, h in minimal.items() if p != o and (inputs(g) - Lin) & gates(h)} for o, g in minimal.items()}
    order, left = [], dict(deps)
    while left:
        ready = sorted(o for o in left if not (left[o] & set(left)))
        if not ready:
            return ("cycle", list(minimal.values()))
        for o in ready:
            order.append(o)
            del left[o]
    return ("ok", [minimal[o] for o in order])


# ---------------------------------------------------------------- twin of the specification
def spec(L, sgs):
    """L: limited circuit graph; sgs: list of supergate graphs; returns the list of violated clauses"""
    bad = []
    Lin = inputs(L)
    for k, s in enumerate(sgs):
        if len([n for n in s if s[n][1]]) != 1:
            bad.append(f"shape:outputs:{k}")
        for n in gates(s):
            if n not in L or s[n][0] != L[n][0] or s[n][2] != L[n][2]:
                bad.append(f"shape:wiring:{k}:{n}")
        for a, b in itertools.combinations(sorted(inputs(s)), 2):
            if a in L and b in L and (tfi(L, a) | {a}) & (tfi(L, b) | {b}):
                bad.append(f"indep:{k}:{a}:{b}")
    cone = set()
    for o in L:
        if L[o][1]:
            cone |= tfi(L, o) | {o}
    covered = set()
    for s in sgs:
        covered |= gates(s)
    bad += [f"cover:{n}" for n in sorted(cone - Lin - covered)]
    for i, si in enumerate(sgs):
        for j, sj in enumerate(sgs):
            if j >= i and inputs(si) & gates(sj):
                bad.append(f"topo:{i}:{j}")
    return bad


# ---------------------------------------------------------------- generators (dumps with fan-in <= 2 unless stated)
GATE2 = ["and", "nand", "or", "nor", "xor", "xnor"]
GATE1 = ["buf", "not"]


class B:
    """tiny dump builder"""

    def __init__(self, rng, style=None):
        self.rng = rng
        self.nodes = []
        self.k = 0
        self.style = style or rng.choice(["n", "short", "w_"])

    def name(self):
        i = self.k
        self.k += 1
        if self.style == "short":
            return "abcdefghijklmnopqrstuvwxyz"[i % 26] + (str(i // 26) if i >= 26 else "")
        return f"{self.style}{i}"

    def inp(self):
        n = self.name()
        self.nodes.append([n, "input", False, []])
        return n

    def const(self):
        n = self.name()
        self.nodes.append([n, self.rng.choice(["0", "1"]), False, []])
        return n

    def gate(self, fi, t=None):
        fi = sorted(set(fi))
        if t is None:
            t = self.rng.choice(GATE1 if len(fi) == 1 else GATE2)
        n = self.name()
        self.nodes.append([n, t, False, fi])
        return n

    def out(self, n):
        for nd in self.nodes:
            if nd[0] == n:
                nd[2] = True

    def dump(self):
        return {"name": "top", "nodes": self.nodes, "bbs": []}


def gen_tree(rng, b, depth):
    """a fan-out-free tree over fresh inputs"""
    if depth == 0 or rng.random() < 0.25:
        return b.inp() if rng.random() < 0.9 else b.const()
    if rng.random() < 0.25:
        return b.gate([gen_tree(rng, b, depth - 1)])
    return b.gate([gen_tree(rng, b, depth - 1), gen_tree(rng, b, depth - 1)])


def gen_diamond(rng, b, src, depth):
    """a reconvergent block fed by the single net `src`: two branches that meet again, nested"""
    if depth == 0 or rng.random() < 0.2:
        return b.gate([src]) if rng.random() < 0.6 else src
    l = gen_diamond(rng, b, src, depth - 1)
    r = gen_diamond(rng, b, src, depth - 1) if rng.random() < 0.7 else b.gate([src])
    if l == r:
        r = b.gate([src])
    return b.gate([l, r])


def gen_reconv(rng, b, depth):
    """tree whose leaves are diamonds over fresh stems (diamonds inside diamonds)"""
    if depth == 0:
        stem = b.inp() if rng.random() < 0.6 else b.gate([b.inp(), b.inp()])
        return gen_diamond(rng, b, stem, rng.randint(1, 2))
    if rng.random() < 0.4:
        stem = gen_reconv(rng, b, depth - 1)
        return gen_diamond(rng, b, stem, rng.randint(1, 2))
    return b.gate([gen_reconv(rng, b, depth - 1), gen_reconv(rng, b, depth - 1)])


def budget(d, max_nodes):
    return len(d["nodes"]) <= max_nodes


def gen_case_circuit(rng, kind, max_nodes=22):
    import lib
    for _ in range(50):
        b = B(rng)
        if kind == "tree":
            b.out(gen_tree(rng, b, rng.randint(1, 4)))
        elif kind == "reconv":
            b.out(gen_reconv(rng, b, rng.randint(0, 2)))
        elif kind == "multi":
            # several outputs over shared logic: a few shared blocks, outputs combine them
            shared = [gen_reconv(rng, b, rng.randint(0, 1)) if rng.random() < 0.5 else gen_tree(rng, b, 2) for _ in range(rng.randint(1, 3))]
            pool = list(shared) + [nd[0] for nd in b.nodes]
            for _ in range(rng.randint(2, 4)):
                x, y = rng.choice(pool), rng.choice(pool)
                o = b.gate([x, y]) if x != y else b.gate([x])
                b.out(o)
                if rng.random() < 0.5:
                    pool.append(o)
            if rng.random() < 0.3:
                b.out(rng.choice(b.nodes)[0])
        elif kind == "dag":
            d = lib.rand_dag(rng, rng.randint(1, 5), rng.randint(1, 12), max_fanin=2, p_const=0.2, p_out=rng.choice([0.0, 0.1, 0.3, 0.5]))
            if budget(d, max_nodes):
                return d
            continue
        elif kind == "wide":
            d = lib.rand_dag(rng, rng.randint(2, 5), rng.randint(1, 8), max_fanin=rng.choice([3, 4, 5]), p_const=0.15, p_out=rng.choice([0.0, 0.2, 0.4]))
            if any(len(n[3]) > 2 for n in d["nodes"]) and budget(d, 16):
                return d
            continue
        d = b.dump()
        if budget(d, max_nodes):
            return d
    b = B(rng)
    b.out(b.gate([b.inp(), b.inp()]))
    return b.dump()


def single_output(rng, d):
    """keep exactly one output mark (super-circuit form)"""
    outs = [n for n in d["nodes"] if n[2]]
    keep = rng.choice(outs) if outs and rng.random() < 0.9 else rng.choice(d["nodes"])
    for n in d["nodes"]:
        n[2] = n is keep
    return d


# ---------------------------------------------------------------- name stress: names that are `_`-joins of other names
def _rename(d, mp):
    return {"name": d.get("name", "top"), "bbs": [],
            "nodes": [[mp[n], t, o, sorted(mp[f] for f in fi)] for n, t, o, fi in d["nodes"]]}


def gen_namejoin(rng, max_nodes=20):
    """inputs a..h, gates m, n, p ...; an inverter/buffer of a gate with >= 2 operands is named after those operands joined with
    `_` (a_b = not(m), m = and(a, b)), so that different node sets can have the same sorted-and-joined name list"""
    kind = rng.choice(["tree", "reconv", "multi", "dag"])
    d = gen_case_circuit(rng, kind, max_nodes=max_nodes - 4)
    nodes = [list(n) for n in d["nodes"]]
    # extra single-operand consumers on top of multi-operand gates
    k = 0
    for n in list(nodes):
        if len(n[3]) >= 2 and rng.random() < 0.5 and len(nodes) < max_nodes:
            nodes.append([f"__x{k}", rng.choice(["not", "buf"]), rng.random() < 0.7, [n[0]]])
            k += 1
    ins = [n[0] for n in nodes if n[1] == "input"]
    if len(ins) > 8:
        return gen_namejoin(rng, max_nodes)
    mp, used = {}, set()
    for i, n in enumerate(ins):
        mp[n] = "abcdefgh"[i]
        used.add(mp[n])
    pool = iter([c for c in "mnpqrstuvwxyz"] + [f"m{i}" for i in range(1, 60)])
    by = {n[0]: n for n in nodes}
    # topological order: operands before consumers
    order, seen = [], set()

    def visit(x):
        if x in seen:
            return
        seen.add(x)
        for f in by[x][3]:
            visit(f)
        order.append(x)
    for n in nodes:
        visit(n[0])
    for x in order:
        if x in mp:
            continue
        n = by[x]
        name = None
        if len(n[3]) == 1 and len(by[n[3][0]][3]) >= 2:
            cand = "_".join(sorted(mp[f] for f in by[n[3][0]][3]))
            if cand not in used:
                name = cand
        if name is None:
            name = next(pool)
            while name in used:
                name = next(pool)
        mp[x] = name
        used.add(name)
    out = _rename({"name": "top", "nodes": [by[x] for x in order]}, mp)
    if not any(n[2] for n in out["nodes"]):
        out["nodes"][-1][2] = True
    return out


def gen_wide_types():
    """every multi-operand type with 3, 4 and 5 operands: o = not(g), g = t(i0 .. ik)"""
    out = []
    for t in GATE2:
        for k in (3, 4, 5):
            nodes = [[f"i{j}", "input", False, []] for j in range(k)]
            nodes.append(["g", t, False, [f"i{j}" for j in range(k)]])
            nodes.append(["o", "not", True, ["g"]])
            out.append({"name": "top", "nodes": nodes, "bbs": []})
    return out


# ---------------------------------------------------------------- constants (incl. `x`) inside the cones, with fan-out
def gen_xconst(rng, max_nodes=16):
    """random fan-in<=2 DAG whose leaves are mostly constants of type x / 0 / 1 (a constant may feed several gates)"""
    import lib
    for _ in range(50):
        d = lib.rand_dag(rng, rng.randint(1, 4), rng.randint(2, 10), max_fanin=2, p_const=0.95, consts=("x", "x", "0", "1"),
                         p_out=rng.choice([0.0, 0.2, 0.4]))
        if len(d["nodes"]) <= max_nodes and any(n[1] in CONST and any(n[0] in m[3] for m in d["nodes"]) for n in d["nodes"]):
            return d
    return d


def xconst_demo():
    """a, b, d inputs; g1 = and(a, tie_x); g2 = or(g1, b); out = xor(g2, d)   (what the Verilog reader makes of 1'bx)"""
    return {"name": "tiex", "bbs": [], "nodes": [["a", "input", False, []], ["b", "input", False, []], ["d", "input", False, []],
            ["tie_x", "x", False, []], ["g1", "and", False, ["a", "tie_x"]], ["g2", "or", False, ["b", "g1"]],
            ["out", "xor", True, ["d", "g2"]]]}


# ---------------------------------------------------------------- names of the shape limit_fanin itself produces
def gen_limitname(rng):
    """a gate g with 3..5 operands next to nodes already called g_limit_fanin_<i> (as after an earlier limit_fanin(c, 3))"""
    k = rng.randint(3, 5)
    t = rng.choice(GATE2)
    nodes = [[f"i{j}", "input", False, []] for j in range(k)]
    style = rng.choice(["input", "gate", "both"])
    if style in ("input", "both"):
        nodes.append([f"g_limit_fanin_{rng.choice([0, 1])}", "input", False, []])
    if style in ("gate", "both"):
        nodes.append(["g_limit_fanin_0" if style == "gate" else "g_limit_fanin_2", rng.choice(GATE2), False, ["i0", "i1"]])
    extra = [n[0] for n in nodes if n[0].startswith("g_limit")]
    nodes.append(["g", t, False, [f"i{j}" for j in range(k)]])
    nodes.append(["o", rng.choice(GATE2), True, ["g", rng.choice(extra)]])
    for e in extra:
        if not any(e in n[3] for n in nodes):
            nodes.append([f"u_{e}", "buf", True, [e]])
    return {"name": "top", "nodes": nodes, "bbs": []}
