"""C18: acyclic_unroll removes cycles and preserves stable states (+ the C05 clause for acyclic arguments)."""
import json
import os

import lib
from lib import cs, csl, ccirc

ID = "C18"
RUN_MODULE = "Run.Run_C18"
GEN_FILES = ["Gen_types.v", "Gen_lint.v"]
RULE = ("lint-clean circuits of <= 10 nodes built from a random DAG (1..3 inputs, constants 0/1, all eight gate types, fan-in 1..4) "
        "plus 1..5 extra edges towards earlier gates (nested / overlapping cycles, several strongly connected components, cycles through "
        "buf/not by re-driving them), inputs and cycle nodes marked as outputs, node insertion order shuffled (it steers the greedy feedback "
        "heuristic); hub-and-petal circuits (one node sourcing several feedback edges / several feedback nodes sharing a load); dense overlapping loops (5..8 gates, >= 2 edges per node, three insertion orders of each graph); about 15% acyclic arguments (C05 clause), name-stress variants (aux_in_*, c0_*, c1_* names), and a few arguments outside "
        "the domain (self loop, blackbox, x constant); non-trivial = at least one gate and one output; distinct = canonical input hash")
EXPLANATION = ("model through the API model with the feedback set read back from the result; semantic theorem on the closed form of the result; "
               "closed form = model = implementation decided per case; oracle enumerates all stable states")
SHARD = 20
HASHSEEDS = {"quick": [0, 1], "thorough": [0, 1, 2]}
MAX_RESULT_NODES = 85


def gen_cyclic(rng, acyclic=False):
    n_in = rng.randint(1, 3)
    n_gate = rng.randint(2, 10 - n_in - 1)
    d = lib.rand_dag(rng, n_in, n_gate, max_fanin=3, p_const=0.15, consts=("0", "1"), p_out=0.35)
    nodes = d["nodes"]
    names = [n[0] for n in nodes]
    gates = [n for n in nodes if n[1] in lib.GATES]
    if not acyclic and gates:
        for _ in range(rng.choice([1, 1, 2, 2, 3, 4, 5])):
            g = rng.choice(gates)
            gi = names.index(g[0])
            later = [m for m in nodes[gi + 1:] if m[1] in lib.GATES]
            cand = later if later and rng.random() < 0.85 else [m for m in gates if m[0] != g[0]]
            if not cand:
                continue
            src = rng.choice(cand)[0]
            if g[1] in lib.MULTI:
                g[3] = sorted(set(g[3]) | {src})
            else:
                g[3] = [src]
    # inputs that are outputs, cycle nodes as outputs
    for n in nodes:
        if n[1] == "input" and rng.random() < 0.25:
            n[2] = True
        elif n[1] in lib.GATES and rng.random() < 0.2:
            n[2] = True
    if not any(n[2] for n in nodes):
        nodes[-1][2] = True
    return lib.shuffle_nodes(rng, d)


def gen_petals(rng):
    """k gates that all read a hub and are all read by it: depending on the insertion order the heuristic cuts either the hub
    (ONE node that is the source of k feedback edges) or the petals (k feedback nodes that share a load)"""
    k = rng.choice([2, 2, 3])
    nodes = [["a", "input", rng.random() < 0.3, []], ["b", "input", False, []]]
    petals = [f"p{i}" for i in range(k)]
    for p_ in petals:
        nodes.append([p_, rng.choice(lib.MULTI), rng.random() < 0.4, sorted({"hub", rng.choice(["a", "b"])})])
    nodes.append(["hub", rng.choice(lib.MULTI), rng.random() < 0.5, sorted(petals + ([rng.choice(["a", "b"])] if rng.random() < 0.5 else []))])
    if rng.random() < 0.6:
        nodes.append(["t", rng.choice(lib.MULTI), True, sorted(rng.sample(petals + ["hub", "a"], 2))])
    if rng.random() < 0.4:          # a second load shared by the petals
        nodes.append(["u", rng.choice(lib.MULTI), True, sorted(petals)])
    if not any(n[2] for n in nodes):
        nodes[-1][2] = True
    return lib.shuffle_nodes(rng, {"name": "top", "nodes": nodes, "bbs": []})


def gen_dense(rng, kmax=8):
    """dense overlapping loops: 5..8 gates, every gate reads 2..3 other gates (>= 2 edges per node), 1..2 inputs; returned in three
    insertion orders of the same graph (the greedy feedback heuristic breaks ties by insertion order)"""
    k = rng.randint(5, kmax)
    gates = [f"g{i}" for i in range(k)]
    ins = ["a", "b"][:rng.randint(1, 2)]
    nodes = [[i, "input", False, []] for i in ins]
    for g in gates:
        others = [x for x in gates if x != g]
        t = rng.choice(lib.MULTI) if rng.random() < 0.85 else rng.choice(lib.SINGLE)
        if t in lib.SINGLE:
            fi = [rng.choice(others)]
        else:
            fi = rng.sample(others, rng.choice([2, 2, 3]))
            if rng.random() < 0.3:
                fi.append(rng.choice(ins))
        nodes.append([g, t, rng.random() < 0.3, sorted(set(fi))])
    if not any(n[2] for n in nodes):
        nodes[-1][2] = True
    d = {"name": "top", "nodes": nodes, "bbs": []}
    return [lib.shuffle_nodes(rng, d) for _ in range(3)]


OVERLAP_EDGES = [("a", "g3"), ("g2", "g4"), ("g3", "g1"), ("g3", "g4"), ("g3", "g2"), ("g0", "g3"), ("g0", "g4"), ("g0", "g2"),
                 ("g1", "g4"), ("g1", "g0"), ("g4", "g1")]


def gen_overlap3(rng, constrained):
    """three overlapping loops on five gates (the structure of the C18-s4 witness: one cycle needs TWO backward edges of the greedy
    order): random gate types / names / output marks; insertion orders with g3 < g0 < g1 < g4 (the tie-break pattern that makes the
    heuristic pick both) or fully random"""
    gates = ["g0", "g1", "g2", "g3", "g4"]
    if constrained:
        order = ["g3", "g0", "g1", "g4"]
        order.insert(rng.randint(0, 4), "g2")
    else:
        order = gates[:]
        rng.shuffle(order)
    order.insert(rng.choice([0, 5]), "a")
    names = dict(zip(gates, rng.sample(["p", "q", "r", "s", "t", "u", "w"], 5)))
    names["a"] = "a"
    fi = {n: [] for n in order}
    for u, v in OVERLAP_EDGES:
        fi[v].append(u)
    nodes = []
    for n in order:
        if n == "a":
            nodes.append(["a", "input", rng.random() < 0.2, []])
        else:
            t = rng.choice(lib.SINGLE) if len(fi[n]) == 1 else rng.choice(lib.MULTI)
            nodes.append([names[n], t, n in ("g0", "g4") or rng.random() < 0.2, sorted(names[f] for f in fi[n])])
    return {"name": "top", "nodes": nodes, "bbs": []}


def stress_names(rng, d):
    """rename some nodes to names the construction generates itself"""
    d = json.loads(json.dumps(d))
    names = [n[0] for n in d["nodes"]]
    k = rng.choice([1, 1, 2])
    ren = {}
    for old in rng.sample(names, min(k, len(names))):
        other = rng.choice(names)
        new = rng.choice([f"aux_in_{other}", f"c0_{other}", f"c1_{other}", f"c0_aux_in_{other}", f"c1_aux_in_{other}", "c0", "aux_in_"])
        if new not in names and new not in ren.values():
            ren[old] = new
    for n in d["nodes"]:
        n[0] = ren.get(n[0], n[0])
        n[3] = sorted(ren.get(f, f) for f in n[3])
    return d


def generate(rng, tier):
    n = 150 if tier == "quick" else 600
    n = max(20, int(n * float(os.environ.get("VERIF_SCALE", "1"))))      # <1 only for mutant trials on a loaded machine
    out = []
    for i in range(n):
        r = rng.random()
        d = gen_cyclic(rng, acyclic=r < 0.15)
        kind = "acyclic-arg" if r < 0.15 else "cyclic"
        r2 = rng.random()
        if r2 < 0.10:
            d = stress_names(rng, d); kind += "+names"
        elif r2 < 0.13:
            g = rng.choice([x for x in d["nodes"] if x[1] in lib.MULTI] or [None])
            if g:
                g[3] = sorted(set(g[3]) | {g[0]}); kind = "self-loop"
        elif r2 < 0.16:
            d = lib.add_flop(rng, d); kind = "blackbox"
        elif r2 < 0.19:
            d["nodes"].append(["xk", "x", False, []])
            g = rng.choice([x for x in d["nodes"] if x[1] in lib.MULTI] or [None])
            if g:
                g[3] = sorted(set(g[3]) | {"xk"})
            kind = "x-const"
        out.append({"fn": "acyclic_unroll", "circuit": d, "kind": kind})
    out += [{"fn": "acyclic_unroll", "circuit": gen_petals(rng), "kind": "petals"} for _ in range(max(12, n // 10))]
    for i in range(8 if tier == "quick" else n // 8):
        out.append({"fn": "acyclic_unroll", "circuit": gen_overlap3(rng, i % 4 != 3), "kind": "overlap3"})
    for _ in range(4 if tier == "quick" else n // 12):
        out += [{"fn": "acyclic_unroll", "circuit": d, "kind": "dense-loops"} for d in gen_dense(rng, 7 if tier == "quick" else 8)]
    return out


def read_feedback(c_inputs, out):
    pre = "c0_aux_in_"
    return sorted(n[0][len(pre):] for n in out["nodes"] if n[1] == "input" and n[0].startswith(pre) and n[0] not in c_inputs)


def impl(case):
    import circuitgraph as cg
    d = case["circuit"]
    c = lib.build_circuit(d)
    before = lib.dump_circuit(c)
    try:
        r = cg.tx.acyclic_unroll(c)
    except Exception as e:
        # the feedback set the heuristic picks depends on node order and degrees only: read it off a run on the
        # same graph with collision-free names
        ren = {n[0]: f"n{i}" for i, n in enumerate(d["nodes"])}
        back = {v: k for k, v in ren.items()}
        d2 = {"name": d.get("name"), "bbs": [], "nodes": [[ren[n], t, o, [ren[f] for f in fi]] for n, t, o, fi in d["nodes"]]}
        F = []
        try:
            r2 = cg.tx.acyclic_unroll(lib.build_circuit(d2))
            F = sorted(back[f] for f in read_feedback(set(), lib.dump_circuit(r2)) if f in back)
        except Exception:
            pass
        return {"exc": type(e).__name__, "F": F, "unchanged": lib.dump_circuit(c) == before}
    out = lib.dump_circuit(r)
    return {"out": out, "F": read_feedback({n[0] for n in d["nodes"] if n[1] == "input"}, out), "cyclic": bool(c.is_cyclic()),
            "unchanged": lib.dump_circuit(c) == before}


def cres(obs):
    if "out" in obs:
        return f"(Ok {ccirc(obs['out'])})"
    e = obs["exc"]
    return f"(Raise {e})" if e in ("ValueError", "KeyError", "IndexError", "StopIteration", "NotImplementedError") else "(Raise OtherError)"


def to_coq(case, obs):
    if "out" in obs and len(obs["out"]["nodes"]) > MAX_RESULT_NODES:
        return None
    return f"CUnroll {ccirc(case['circuit'])} {csl(obs['F'])} {cres(obs)}"


def nontrivial(case, obs):
    d = case["circuit"]
    return any(n[1] in lib.GATES for n in d["nodes"]) and any(n[2] for n in d["nodes"])


def classify(case, obs):
    ks = [case["kind"], "raise:" + obs["exc"] if "exc" in obs else f"feedback={len(obs['F'])}"]
    if "out" in obs:
        ks.append("arg-cyclic" if obs["cyclic"] else "arg-acyclic")
        if any(n[1] == "input" and n[2] for n in case["circuit"]["nodes"]):
            ks.append("input-is-output")
    return ks


def finding_signature(case, obs):
    return None


# no mutate_case: a harmless rewrite of the construction makes nearly every case disagree, and 40 neighbours per
# disagreeing case would make the widened search last hours; the widened search re-generates instead
WIDEN = 2


CLAIMED = True
LEVEL_TEXT = ("Theorem C18_acyclic_unroll (about the API-level model, no per-case residue): for every lint-clean blackbox-free circuit "
              "without self loops and every feedback set with an acyclic cut, the model of tx.acyclic_unroll RETURNS an acyclic, lint-clean "
              "circuit with the same outputs, inputs = inputs + one c0_aux_in_f per feedback node, in which every consistent valuation that "
              "agrees with a stable state on the inputs and carries its values on the aux inputs shows it on all outputs. Proved via: model = "
              "closed form (graph equality through add/connect/set_type/add_subcircuit step lemmas), totality of every API call, completeness "
              "of the acyclicity test, lint rule check of the closed form. The code's feedback choice is legal for ANY node order (proved).")
LEVEL_NOTE = ("Trusted: Coq kernel + vm_compute, std++, harness; the model is tied to the Python code by correspondence (returned graph = model "
              "= closed form, on every generated case and hash seed). The greedy ordering heuristic is not modelled (any order is correct, "
              "proved); the feedback set is read back from the result. Guards: no bb-typed nodes, no empty/digit-leading names, no x "
              "constants, generated names (c<i>_*, aux_in_*) do not collide with node names.")
TECHNIQUE = "Coq proof (closed form semantics, order-independent cut) + vm_compute correspondence + exhaustive stable-state oracle"
