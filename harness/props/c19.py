"""C19: transforms, queries and writers never modify or alias their argument."""
import ast
import json
import random

import lib
from lib import cs, cb, ccirc

ID = "C19"
RUN_MODULE = "Run.Run_C19"
GEN_FILES = ["Gen_effects.v"]
RULE = ("every function of the closed scope list (35 functions of tx/props/sat/io/utils, 27 read-only Circuit methods, the circuit "
        "argument of add_subcircuit/fill_blackbox) x lint-clean circuits from lib.rand_dag (1-3 inputs, 1-6 gates, constants), about half "
        "of them with 1-3 blackbox instances of 1-3 types (ff, ffr, ffe, ff2: nested and non-nested pin sets, instances of one type "
        "share the BlackBox object); the argument is built with all attributes, on a user graph without `output` attributes "
        "(Circuit(graph=g)) or through the fast Verilog reader; some non-pin nodes carry escaped Verilog identifiers (\\bus[0], \\u1/n3 ...: "
        "60% of the cases of the Verilog writers and their callers, 12% elsewhere); arguments of the call drawn at "
        "random (node names incl. a non-existent one for the raise paths, subsets, flags, a second circuit or the same object twice for "
        "miter); every call followed by 4-6 random edits (add/remove node, attribute change, edge, registry entry, name) of every result "
        "and then of every argument; non-trivial = argument with >= 3 nodes; distinct = (function, circuit, parameters)")
EXPLANATION = ("effect summaries regenerated from the source are proved safe in the store model (frame theorem); each call on real circuits is "
               "snapshotted before/after, scanned for shared mutable objects, and re-snapshotted after edits of either side")
SHARD = 128
HASHSEEDS = {"quick": [0, 1], "thorough": [0, 1, 2, 3]}


def _scope():
    src = (lib.ROOT / "gen" / "plugins" / "effects.py").read_text()
    env = {}
    for n in ast.parse(src).body:
        if isinstance(n, ast.Assign) and isinstance(n.targets[0], ast.Name) and n.targets[0].id in ("SCOPE", "RO_METHODS", "MUTATORS"):
            env[n.targets[0].id] = ast.literal_eval(n.value)
    keys = [f"{m}.{f}" for m in env["SCOPE"] for f in env["SCOPE"][m]] + [f"Circuit.{m}" for m in env["RO_METHODS"]]
    return keys + ["Circuit.add_subcircuit!", "Circuit.fill_blackbox!"]


SCOPE = _scope()
NO_BB = {"tx.ternary", "tx.miter", "tx.unroll", "tx.sensitization_transform", "tx.sensitivity_transform", "tx.acyclic_unroll",
         "tx.supergates", "props.influence", "props.avg_sensitivity", "props.sensitivity", "props.sensitize", "io.circuit_to_bench",
         "tx.subcircuit", "props.signal_probability"}
NEED_BB = {"tx.sequential_unroll"}
IGNORE_PINS = {"tx.strip_blackboxes", "tx.sequential_unroll"}
IGNORE_CHOICES = [None, "clk", ["clk"], "qn", ["qn"], ["q"], "q", ["clk", "qn"], ["rst", "en", "qn"], ["clk", "rst", "en"], ["d"]]
WRITERS = {"io.circuit_to_bench", "io.to_file", "io.circuit_to_verilog", "tx.syn", "tx.aig", "utils.visualize"}
ESCAPED = {"io.circuit_to_verilog", "io.to_file", "tx.syn", "tx.aig", "utils.visualize"}
SAT = {"props.influence", "props.avg_sensitivity", "props.sensitivity", "props.sensitize", "props.signal_probability",
       "sat.construct_solver", "sat.cnf", "sat.solve", "sat.approx_model_count", "sat.model_count"}


# ---------------------------------------------------------------- generation
# blackbox types with a d and a q pin; pin sets nested (ff < ffr, ff < ffe, ff < ff2) and not nested (ffr / ffe / ff2)
BB_TYPES = {"ff": (["clk", "d"], ["q"]), "ffr": (["clk", "d", "rst"], ["q"]), "ffe": (["clk", "d", "en"], ["q"]),
            "ff2": (["clk", "d"], ["q", "qn"])}


def splice_bb(rng, d, inst, bbname, p_unused=0.6):
    """put an instance of blackbox type `bbname` into the fan-out of a random node (dump level, result stays lint-clean)"""
    ins, outs = BB_TYPES[bbname]
    names = [n[0] for n in d["nodes"]]
    on = rng.choice([n for n in names if "." not in n])
    q = f"{inst}_qbuf"
    for n in d["nodes"]:
        if not n[0].startswith(inst + "."):
            n[3] = sorted(q if f == on else f for f in n[3])
    for p in ins:
        if p == "d":
            d["nodes"].append([f"{inst}.d", "bb_input", False, [on]])
        else:
            if p not in names:
                d["nodes"].append([p, "input", False, []]); names.append(p)
            d["nodes"].append([f"{inst}.{p}", "bb_input", False, [p]])
    for p in outs:
        d["nodes"].append([f"{inst}.{p}", "bb_output", False, []])
        if p != "q" and rng.random() < p_unused:
            continue                      # a Q/QN flop whose QN is not used: an unloaded bb_output pin (still lint-clean)
        buf = q if p == "q" else f"{inst}_{p}buf"
        d["nodes"].append([buf, "buf", p != "q", [f"{inst}.{p}"]])
    if not any(q in n[3] for n in d["nodes"]):
        next(n for n in d["nodes"] if n[0] == q)[2] = True
    d["bbs"] = d.get("bbs", []) + [[inst, bbname, sorted(ins), sorted(outs)]]
    return d


def const_circuit(rng):
    """no primary input: one or two constants (sometimes an x), up to three gates over them"""
    nodes = [[f"k{i}", t, False, []] for i, t in enumerate(rng.sample(["0", "1"], rng.randint(1, 2)))]
    if rng.random() < 0.35:
        nodes.append(["kx", "x", False, []])
    for i in range(rng.choice([0, 0, 1, 2, 3])):
        avail = [n[0] for n in nodes]
        t = rng.choice(lib.GATES)
        fi = rng.sample(avail, 1 if t in lib.SINGLE else min(len(avail), rng.randint(1, 2)))
        nodes.append([f"g{i}", t, False, sorted(fi)])
    used = {f for n in nodes for f in n[3]}
    for n in nodes:
        n[2] = n[0] not in used or rng.random() < 0.3
    return {"name": "top", "nodes": nodes, "bbs": []}


def gen_circuit(rng, fn, big):
    if fn in WRITERS and rng.random() < 0.3:
        d = const_circuit(rng)
        d["via"] = rng.choice(["attrs", "graph"])
        return d
    sat = fn in SAT
    d = lib.rand_dag(rng, rng.randint(1, 3), rng.randint(1, 4 if sat else (9 if big else 6)), max_fanin=3, p_const=0.3)
    p_bb = 0.9 if fn in NEED_BB else 0.4 if fn == "props.influence" else 0.2 if fn in NO_BB else 0.5
    if rng.random() < p_bb:
        r = rng.random()
        if r < (0.1 if fn in NEED_BB else 0.3):
            d = lib.add_flop(rng, d)
        else:
            # one to three instances of one to three blackbox types (two instances may share a type = share the BlackBox object)
            k = 1 if r < 0.45 else 2 if r < 0.85 else 3
            if fn in NEED_BB:
                k = max(k, 2)
            types = [rng.choice(list(BB_TYPES)) for _ in range(k)]
            if k >= 2 and (rng.random() < 0.6 or fn in NEED_BB):
                # two different types; for the functions that walk over all flops mostly with pin sets that are not nested
                others = [t for t in BB_TYPES if t != types[0]]
                loose = [t for t in others if not (set(BB_TYPES[t][0]) <= set(BB_TYPES[types[0]][0]) or set(BB_TYPES[types[0]][0]) <= set(BB_TYPES[t][0]))]
                types[1] = rng.choice(loose if loose and rng.random() < 0.7 else others)
            if fn in IGNORE_PINS and rng.random() < 0.6:
                types[rng.randrange(k)] = "ff2"       # a flop with a second output pin ...
            for i, t in enumerate(types):
                d = splice_bb(rng, d, f"u{i}", t, p_unused=0.25 if fn in IGNORE_PINS else 0.6)   # ... that mostly has a load
    if fn == "tx.acyclic_unroll" and rng.random() < 0.65:
        # cyclic arguments: a gate in its own fan-in (q = OR(s, q)) and/or a loop through two or more gates
        gates = [n for n in d["nodes"] if n[1] in lib.MULTI and "." not in n[0]]
        selfable = [n for n in gates if n[1] in ("and", "or", "nand", "nor")]
        r = rng.random()
        if selfable and r < 0.75:
            for n in rng.sample(selfable, min(len(selfable), rng.randint(1, 2))):
                n[3] = sorted(set(n[3]) | {n[0]})
        if len(gates) >= 2 and (r >= 0.45 or not selfable):
            order = [n[0] for n in d["nodes"]]
            a, b = sorted(rng.sample(gates, 2), key=lambda n: order.index(n[0]))
            a[3] = sorted(set(a[3]) | {b[0]})         # a later gate feeds an earlier one
            if b[0] not in a[3] or a[0] not in b[3]:
                b[3] = sorted(set(b[3]) | {a[0]})
    # escaped Verilog identifiers (leading backslash) for some non-pin nodes: the Verilog writer treats them specially
    if rng.random() < (0.6 if fn in ESCAPED else 0.12):
        plain = [n[0] for n in d["nodes"] if "." not in n[0]]
        pool = ["\\bus[0]", "\\bus[1]", "\\u1/n3", "\\a+b", "\\net$7"]
        rng.shuffle(pool)
        ren = dict(zip(rng.sample(plain, min(len(plain), rng.randint(1, 3))), pool))
        for n in d["nodes"]:
            n[0] = ren.get(n[0], n[0])
            n[3] = sorted(ren.get(f, f) for f in n[3])
    d["name"] = rng.choice(["top", "m1", "circuit"])
    # how the argument is built: node by node with every attribute (lib.build_circuit), on a user graph whose non-output
    # nodes carry no `output` attribute (Circuit(graph=g)), or by writing Verilog and reading it back with the fast reader
    r = rng.random()
    d["via"] = "attrs" if r < 0.5 else "graph" if r < 0.85 else "fast"
    return d


def build(d):
    """the argument circuit of a case"""
    import circuitgraph as cg
    via = d.get("via", "attrs")
    shared = {}
    def bb_of(bn, ins, outs):
        key = (bn, tuple(ins), tuple(outs))
        if key not in shared:
            shared[key] = cg.BlackBox(bn, ins, outs)     # instances of one type share one BlackBox object, as with cg.generic_flop
        return shared[key]
    if via == "graph":
        dd = dict(d, nodes=[[n, t, (True if o else None), fi] for n, t, o, fi in d["nodes"]])
        c0 = lib.build_circuit(dd)
        c = cg.Circuit(name=d.get("name"), graph=c0.graph)
    else:
        c = lib.build_circuit(d)
    c.blackboxes = {inst: bb_of(bn, ins, outs) for inst, bn, ins, outs in d.get("bbs", [])}
    if via == "fast":
        try:
            text = cg.io.circuit_to_verilog(lib.build_circuit(d))
            c2 = cg.io.verilog_to_circuit(text, d.get("name"), blackboxes=list(shared.values()), fast=True)
            if lib.canon(lib.dump_circuit(c2)) == lib.canon(lib.dump_circuit(c)):
                return c2
        except Exception:      # noqa: BLE001  (the fast reader is not the subject here; fall back to the direct build)
            pass
    return c


def gen_case(rng, fn, tier):
    d = gen_circuit(rng, fn, tier != "quick")
    names = [n[0] for n in d["nodes"]]
    pick = lambda: rng.choice(names) if rng.random() < 0.88 else "no_such_node"
    case = {"fn": fn, "circuit": d, "eseed": rng.getrandbits(30), "n": pick(), "m": pick(), "flag": rng.random() < 0.5,
            "k": rng.randint(1, 3), "subset": [n for n in names if rng.random() < 0.6]}
    if fn in ("tx.sensitization_transform", "props.influence", "props.avg_sensitivity") and rng.random() < 0.5:
        # an endpoint whose fan-in cone is as large as possible (often the whole circuit), a start node inside it
        fi = {n[0]: set(n[3]) for n in d["nodes"]}
        def cone(x, seen=None):
            seen = set() if seen is None else seen
            for y in fi[x]:
                if y not in seen:
                    seen.add(y); cone(y, seen)
            return seen
        best = max(names, key=lambda x: len(cone(x)))
        if cone(best):
            case["m"], case["n"], case["flag"] = best, rng.choice(sorted(cone(best))), True
            if fn != "tx.sensitization_transform":
                case["n"], case["flag"] = best, False
    if fn == "props.influence" and rng.random() < 0.5:
        case["k"] = 3                      # supergates=True: the path that goes through tx.supergates (which rejects blackboxes)
    if fn in IGNORE_PINS:
        # ignore_pins drawn from input pins, output pins, both; as str and as list
        case["ignore"] = rng.choice(IGNORE_CHOICES if fn == "tx.strip_blackboxes" else [c for c in IGNORE_CHOICES if c not in (["q"], "q", ["d"])] + [["clk"]] * 2)
    if fn == "tx.miter":
        r = rng.random()
        case["second"] = "none" if r < 0.35 else "same" if r < 0.55 else "other"
        if case["second"] == "other":
            case["circuit2"] = gen_circuit(rng, fn, False) if rng.random() < 0.5 else json.loads(json.dumps(d))
    if fn in ("Circuit.add_subcircuit!", "Circuit.fill_blackbox!"):
        case["host"] = gen_circuit(rng, "host", False)
    return case


def generate(rng, tier):
    per = 4 if tier == "quick" else 20
    return [gen_case(rng, fn, tier) for fn in SCOPE for _ in range(per)]


# ---------------------------------------------------------------- implementation driver
def _consume(x):
    return list(x)


def _call(cg, fn, c, case, others, tmp):
    """runs the listed function; `others` receives further argument circuits (so that they are snapshotted as well)"""
    n, m, flag, k, sub = case["n"], case["m"], case["flag"], case["k"], case["subset"]
    tx, props, sat = cg.tx, cg.props, cg.sat
    if fn == "tx.strip_io": return tx.strip_io(c)
    if fn == "tx.strip_outputs": return tx.strip_outputs(c)
    if fn == "tx.strip_inputs": return tx.strip_inputs(c)
    if fn == "tx.strip_blackboxes": return tx.strip_blackboxes(c, ignore_pins=case.get("ignore", ["clk"] if flag else None))
    if fn == "tx.relabel": return tx.relabel(c, {x: f"r_{x}" for x in sub})
    if fn == "tx.subcircuit": return tx.subcircuit(c, sub, modify_io=flag)
    if fn == "tx.syn": return tx.syn(c, engine=["yosys", "genus", "dc"][k - 1], suppress_output=True, working_dir=tmp)
    if fn == "tx.aig": return tx.aig(c)
    if fn == "tx.ternary": return tx.ternary(c)
    if fn == "tx.miter":
        if case["second"] == "none": return tx.miter(c)
        if case["second"] == "same": return tx.miter(c, c)
        return tx.miter(c, others[0])
    if fn == "tx.sequential_unroll":
        return tx.sequential_unroll(c, k, "d", "q", ignore_pins=case.get("ignore", ["clk"]), add_flop_outputs=flag, remove_unloaded=not flag or k == 1,
                                    initial_values="0" if k == 2 else None)
    if fn == "tx.unroll":
        outs, ins = sorted(c.outputs() - c.inputs()), sorted(c.inputs() - c.outputs())
        sio = {outs[0]: ins[0]} if flag and outs and ins else {}
        return tx.unroll(c, k if k < 3 else 0, sio)
    if fn == "tx.sensitization_transform": return tx.sensitization_transform(c, n, endpoints=[m] if flag else None)
    if fn == "tx.sensitivity_transform": return tx.sensitivity_transform(c, n)
    if fn == "tx.limit_fanin": return tx.limit_fanin(c, k)
    if fn == "tx.limit_fanout": return tx.limit_fanout(c, k)
    if fn == "tx.acyclic_unroll": return tx.acyclic_unroll(c)
    if fn == "tx.supergates": return tx.supergates(c, construct_supercircuit=flag)
    if fn == "tx.insert_registers": return tx.insert_registers(c, k)
    if fn == "props.influence": return props.influence(c, [n, m] if flag else n, supergates=(k == 3), approx=(k == 2))
    if fn == "props.avg_sensitivity": return props.avg_sensitivity(c, n, approx=(k == 2))
    if fn == "props.sensitivity": return props.sensitivity(c, n)
    if fn == "props.sensitize": return props.sensitize(c, n, assumptions={m: flag} if k == 1 else None)
    if fn == "props.signal_probability": return props.signal_probability(c, n, approx=(k == 2))
    if fn == "props.levelize": return props.levelize(c)
    if fn == "sat.construct_solver": return sat.construct_solver(c, assumptions={n: flag} if k > 1 else None)
    if fn == "sat.cnf": return sat.cnf(c)
    if fn == "sat.solve": return sat.solve(c, assumptions={n: flag} if k > 1 else None)
    if fn == "sat.approx_model_count": return sat.approx_model_count(c, assumptions={n: flag} if k > 1 else None, use_xor_clauses=(k == 3))
    if fn == "sat.model_count": return sat.model_count(c, assumptions={n: flag} if k > 1 else None)
    if fn == "io.to_file":
        fmt = "verilog" if k == 1 else "bench" if k == 2 else ("verilog" if flag else "other")
        return cg.io.to_file(c, f"{tmp}/out.{'bench' if fmt == 'bench' else 'v'}", fmt=fmt, behavioral=flag)
    if fn == "io.circuit_to_verilog": return cg.io.circuit_to_verilog(c, behavioral=flag)
    if fn == "io.circuit_to_bench": return cg.io.circuit_to_bench(c)
    if fn == "utils.visualize": return cg.utils.visualize(c, f"{tmp}/out.png")
    if fn == "utils.lint": return cg.utils.lint(c, fail_fast=flag, unloaded=(k == 1), single_input_gates=(k == 2))
    if fn == "Circuit.__contains__": return n in c
    if fn == "Circuit.__len__": return len(c)
    if fn == "Circuit.__iter__": return _consume(iter(c))
    if fn == "Circuit.copy": return c.copy()
    if fn == "Circuit.type": return c.type([n, m] if flag else n)
    if fn == "Circuit.filter_type": return c.filter_type(["and", "input", "bb_output"] if flag else "nonsense" if k == 3 else "buf")
    if fn == "Circuit.nodes": return c.nodes()
    if fn == "Circuit.edges": return c.edges()
    if fn == "Circuit.fanin": return c.fanin([n, m] if flag else n)
    if fn == "Circuit.fanout": return c.fanout([n, m] if flag else n)
    if fn == "Circuit.transitive_fanin": return c.transitive_fanin([n, m] if flag else n)
    if fn == "Circuit.transitive_fanout": return c.transitive_fanout([n, m] if flag else n)
    if fn == "Circuit.fanout_depth": return c.fanout_depth(n, maximum=flag)
    if fn == "Circuit.fanin_depth": return c.fanin_depth([n, m] if k == 3 else n, maximum=flag)
    if fn == "Circuit.paths": return _consume(c.paths(n, m, cutoff=k if flag else None))
    if fn == "Circuit.inputs": return c.inputs()
    if fn == "Circuit.is_output": return c.is_output(n)
    if fn == "Circuit.outputs": return c.outputs()
    if fn == "Circuit.io": return c.io()
    if fn == "Circuit.startpoints": return c.startpoints(n if flag else None)
    if fn == "Circuit.endpoints": return c.endpoints([n, m] if flag else None)
    if fn == "Circuit.reconvergent_fanout_nodes": return _consume(c.reconvergent_fanout_nodes())
    if fn == "Circuit.has_reconvergent_fanout": return c.has_reconvergent_fanout()
    if fn == "Circuit.is_cyclic": return c.is_cyclic()
    if fn == "Circuit.uid": return c.uid(n, blocked=[f"{n}_0"] if flag else None)
    if fn == "Circuit.kcuts": return c.kcuts(n, k)
    if fn == "Circuit.topo_sort": return _consume(c.topo_sort())
    if fn == "Circuit.add_subcircuit!":
        host = build(case["host"])
        conns = {x: rng_pick(case, host) for x in sorted(c.inputs())[:1]} if flag else None
        host.add_subcircuit(c, "sub", connections=conns, strip_io=(k != 3))
        return host                      # the host plays the role of the "result": it must share nothing with the argument
    if fn == "Circuit.fill_blackbox!":
        host = cg.Circuit("host")
        for i in sorted(c.inputs()):
            host.add(f"h_{i}", "input")
        bb = cg.BlackBox("blk", sorted(c.inputs()) if k != 3 else ["zz"], sorted(c.outputs()))
        host.add_blackbox(bb, "u0", {i: f"h_{i}" for i in sorted(c.inputs())} if k != 3 else None)
        host.fill_blackbox("u0" if not flag or k != 2 else "nope", c)
        return host
    raise RuntimeError(f"no driver for {fn}")


def rng_pick(case, host):
    r = random.Random(case["eseed"] + 7)
    return r.choice(sorted(host.nodes()))


def _mutables(c):
    """(kind, object) for every mutable object a Circuit owns"""
    g = c.graph
    out = [("graph", g), ("node-dict", g._node), ("adj-dict", g._adj), ("pred-dict", g._pred), ("succ-dict", g._succ),
           ("graph-attr-dict", g.graph), ("registry", c.blackboxes)]
    out += [("node-attr-dict", d) for d in g._node.values()]
    for table, kind in ((g._adj, "adj-inner-dict"), (g._pred, "pred-inner-dict")):
        for inner in table.values():
            out.append((kind, inner))
            out += [("edge-attr-dict", ed) for ed in inner.values()]
    return out


def _deep(c):
    """everything a Circuit record cannot carry: node order, all attributes, edge and graph attributes"""
    g = c.graph
    return json.dumps([[(n, sorted((str(k), repr(v)) for k, v in a.items())) for n, a in g._node.items()],
                       sorted((u, v, sorted((str(k), repr(x)) for k, x in a.items())) for u, v, a in g.edges(data=True)),
                       sorted((str(k), repr(v)) for k, v in g.graph.items()),
                       [(i, b.name, sorted(b.inputs()), sorted(b.outputs()), id(b), id(b.input_set), id(b.output_set))
                        for i, b in c.blackboxes.items()], c.name])


def _circuits_in(x, cg, depth=0, seen=None):
    seen = seen if seen is not None else []
    if isinstance(x, cg.Circuit):
        if not any(x is y for y in seen):
            seen.append(x)
    elif depth < 4:
        if isinstance(x, dict):
            for k, v in x.items():
                _circuits_in(k, cg, depth + 1, seen); _circuits_in(v, cg, depth + 1, seen)
        elif isinstance(x, (tuple, list, set, frozenset)):
            for v in x:
                _circuits_in(v, cg, depth + 1, seen)
    return seen


def _edit(cg, rng, c, tag):
    """random edits, each of which really changes the circuit"""
    g = c.graph
    first = None
    if c.blackboxes and rng.random() < 0.6:
        first = rng.choice(["ru_true", "ru_true", "ru_false", "fill"])      # mutators that work on the instances, while they are intact
    for i in range(rng.randint(4, 6)):
        names = list(g.nodes)
        op = first if i == 0 and first else rng.choice(["add", "remove", "attr", "edge", "registry", "name", "output", "ru_true", "ru_false",
                                                       "set_type", "fill"])
        if op in ("ru_true", "ru_false"):
            if c.remove_unloaded(inputs=(op == "ru_true")):
                continue
            op = "name"                   # nothing was unloaded: make sure this step still changes something
        if op == "fill":
            inst = sorted(c.blackboxes)[0] if c.blackboxes else None
            bb = c.blackboxes.get(inst)
            try:
                if bb is None or not all(f"{inst}.{p}" in g for p in bb.io()):
                    raise ValueError
                f = cg.Circuit("filler")
                for p in sorted(bb.inputs()):
                    f.add(p, "input")
                for p in sorted(bb.outputs()):
                    f.add(p, "or" if len(bb.inputs()) > 1 else "buf", fanin=sorted(bb.inputs())[:2], output=True)
                c.fill_blackbox(inst, f)
                continue
            except ValueError:
                op = "name"
        if op == "set_type":
            cand = [x for x in names if g.nodes[x].get("type") in ("and", "or", "nand", "nor", "xor", "xnor")]
            if cand:
                x = rng.choice(cand)
                c.set_type(x, "nand" if g.nodes[x]["type"] != "nand" else "nor")
                continue
            op = "name"
        if op == "add" or not names:
            nn = f"zz_{tag}_{i}"
            c.add(nn, rng.choice(["and", "or", "xor"]), fanin=[x for x in rng.sample(names, min(2, len(names))) if "." not in x],
                  output=rng.random() < 0.5)
        elif op == "remove":
            c.remove(rng.choice(names))
        elif op == "attr":
            x = rng.choice(names)
            g.nodes[x]["type"] = "nand" if g.nodes[x].get("type") != "nand" else "nor"
        elif op == "output":
            x = rng.choice(names)
            c.set_output(x, not g.nodes[x].get("output", False))
        elif op == "edge":
            u, v = rng.choice(names), rng.choice(names)
            if g.has_edge(u, v):
                g.remove_edge(u, v)
            else:
                g.add_edge(u, v)
        elif op == "registry":
            if c.blackboxes and rng.random() < 0.5:
                del c.blackboxes[sorted(c.blackboxes)[0]]
            else:
                c.blackboxes[f"zz_{tag}_{i}"] = cg.BlackBox("zz", ["a"], ["y"])
        else:
            c.name = c.name + "_e"


def impl(case):
    import os
    import shutil
    import tempfile
    import circuitgraph as cg
    fn = case["fn"]
    rng = random.Random(case["eseed"])
    c = build(case["circuit"])
    args = [c]
    if case.get("second") == "other":
        args.append(build(case["circuit2"]))
    tmp = tempfile.mkdtemp(prefix="c19_")
    cwd = os.getcwd()
    before = [lib.dump_circuit(a) for a in args]
    deep_before = [_deep(a) for a in args]
    exc, result = None, None
    try:
        os.chdir(tmp)
        result = _call(cg, fn, c, case, args[1:], tmp)
    except RuntimeError as e:
        if str(e).startswith("no driver"):
            raise
        exc = type(e).__name__
    except Exception as e:       # noqa: BLE001  (any library exception is the Raise outcome)
        exc = type(e).__name__
    finally:
        os.chdir(cwd)
        shutil.rmtree(tmp, ignore_errors=True)
    after = [lib.dump_circuit(a) for a in args]
    anomalies = []
    for i, a in enumerate(args):
        if _deep(a) != deep_before[i] and after[i] == before[i]:
            anomalies.append("arg-deep-snapshot-changed")
    results = [] if exc else _circuits_in(result, cg)
    for r in results:
        if any(r is a for a in args):
            anomalies.append("shared-circuit-object")
    live = [r for r in results if not any(r is a for a in args)]
    for a in args:
        mine = {id(o): k for k, o in _mutables(a)}
        keep = _mutables(a)          # keeps the objects alive while ids are compared
        for r in results:
            if any(r is x for x in args):
                continue
            for k, o in _mutables(r):
                if id(o) in mine:
                    anomalies.append("shared-" + k)
        del keep
    # BlackBox objects are shared by design (dict.copy() is shallow); a *different* BlackBox that uses the same set object is not
    for a in args:
        abbs = list(a.blackboxes.values())
        for r in results:
            for rb in r.blackboxes.values():
                if any(rb is ab for ab in abbs):
                    continue
                for ab in abbs:
                    if any(x is y for x in (rb.input_set, rb.output_set) for y in (ab.input_set, ab.output_set)):
                        anomalies.append("shared-pin-set")
    anomalies = sorted(set(anomalies))
    shown = live[:4]
    for j, r in enumerate(live):
        _edit(cg, rng, r, f"r{j}")
    after_edit = [lib.dump_circuit(a) for a in args]
    res_before = [lib.dump_circuit(r) for r in shown]      # the results as they are before the arguments are edited
    seen = []
    for i, a in enumerate(args):
        if not any(a is s for s in seen):
            seen.append(a)
            _edit(cg, rng, a, f"a{i}")
    res_after = [lib.dump_circuit(r) for r in shown]
    return {"exc": exc, "before": before, "after": after, "after_edit": after_edit, "anomalies": anomalies,
            "returns_circuit": bool(results), "n_results": len(results), "res_before": res_before, "res_after": res_after}


# ---------------------------------------------------------------- Coq term
def to_coq(case, obs):
    pool = {}

    def ref(d):
        key = lib.canon(d) + json.dumps([n[0] for n in d["nodes"]][:0])
        if key not in pool:
            pool[key] = (f"x{len(pool)}", ccirc(d))
        return pool[key][0]

    args = "[" + ";".join(f"({ref(b)},{ref(a)},{ref(e)})" for b, a, e in zip(obs["before"], obs["after"], obs["after_edit"])) + "]"
    res = "[" + ";".join(f"({ref(b)},{ref(a)})" for b, a in zip(obs["res_before"], obs["res_after"])) + "]"
    body = f"CCall {cs(case['fn'])} {args} {cb(obs['exc'] is not None)} {cb(obs['returns_circuit'])} {lib.csl(obs['anomalies'])} {res}"
    lets = "".join(f"let {v} := {t} in " for v, t in pool.values())
    return f"({lets}{body})"


def nontrivial(case, obs):
    return len(case["circuit"]["nodes"]) >= 3


def classify(case, obs):
    out = [case["fn"], "raise:" + obs["exc"] if obs["exc"] else "ok", "bb" if case["circuit"]["bbs"] else "plain"]
    if obs["returns_circuit"]:
        out.append("returns-circuit")
    return out


def finding_signature(case, obs):
    return None


def mutate_case(rng, case):
    return gen_case(rng, (case or {}).get("fn") or rng.choice(SCOPE), "thorough")


CLAIMED = True
LEVEL_TEXT = ("Theorems over the store model (heap cells for DiGraph objects, registry dicts, Circuit objects, containers): every effect summary "
              "accepted by the checker -- and the 73 summaries of all listed functions, regenerated from the source, are accepted -- leaves "
              "every pre-existing cell unchanged on return and on raise at any point, returns only cells allocated by the call (disjoint "
              "from everything reachable from the arguments), and any later sequence of mutator steps on one side is invisible to the other. "
              "BlackBox objects with their pin sets are heap cells: shared by design, never written by a listed function. "
              "The runtime oracle snapshots (registry down to the pin sets), identity-scans and edits real circuits for every listed function.")
LEVEL_NOTE = ("Partial by nature: the theorems are about the store model; its faithfulness to CPython/networkx (what graph.copy(), "
              "relabel_nodes, subgraph().copy(), dict.copy(), graph.update and the mutators touch; the classification tables of the "
              "translator gen/plugins/effects.py) is observational, established by the snapshot/identity/edit runs of this check. "
              "Sharing of BlackBox objects between argument and result is by design (dict.copy() is shallow) and not reported; the theorem "
              "and the oracle say that no listed function writes one; strings are values; "
              "per-node attribute dicts and adjacency dicts are part of the DiGraph cell in the model and scanned individually at run "
              "time. tx.syn, tx.aig, utils.visualize are exercised up to the OSError they raise without yosys/genus/dc.")
TECHNIQUE = "Coq proof (checker soundness: frame + independent histories) + regenerated effect summaries + snapshot/identity/edit oracle judged in Coq"
