"""C20: lint decides well-formedness, and library outputs pass it."""
import lib
from lib import cs, cb, ccirc

ID = "C20"
RUN_MODULE = "Run.Run_C20"
GEN_FILES = ["Gen_types.v", "Gen_lint.v"]
RULE = ("random attributed graphs over <= 7 names (any of the 14 supported types, an unsupported type string, a missing "
        "type attribute; arbitrary edges incl. self loops; dotted names with/without a registered instance; registry entries "
        "with missing/mistyped pins) x random flag sets, plus outputs of library functions on lint-clean inputs; "
        "non-trivial = at least 2 nodes and at least one edge or registry entry; distinct = canonical input hash")
EXPLANATION = "lint model (rule list over regenerated tables) proved equivalent to the documented rule list; model tied to utils.lint by correspondence"
SHARD = 150

TYPES = ["buf", "and", "or", "xor", "not", "nand", "nor", "xnor", "0", "1", "x", "input", "bb_input", "bb_output", "foo", None]


def fresh(names, base):
    """a node name not used yet (dumps must never contain a name twice: a dict and a Coq list_to_map would disagree)"""
    n, k = base, 0
    while n in names:
        n, k = f"{base}{k}", k + 1
    return n


def inject(rng, d):
    """Apply one rule-violating (or harmless) edit to a lint-clean dump; returns the name of the edit."""
    nodes = d["nodes"]
    names = [n[0] for n in nodes]
    by = lambda ts: [n for n in nodes if n[1] in ts]
    kind = rng.choice(["fanin_on_source", "fanin_on_source", "second_driver", "bbout_load", "bbout_nonbuf", "untype", "unsup",
                       "dotted", "drop_pin", "mistype_pin", "undriven", "unloaded", "single_in", "harmless_edge", "harmless_out",
                       "registry_only", "pin_extra_fanout", "multi_dot_clean", "multi_dot_clean", "dotted_instance", "swap_pin", "swap_pin", "free_bbout_loads", "free_bbout_loads"])
    if kind == "fanin_on_source":
        c = by(["input", "0", "1", "x", "bb_output"])
        if c and rng.random() < 0.5:
            # make sure constants of every kind occur
            n = rng.choice(c)
            if n[1] == "input" and rng.random() < 0.6 and not any(n[0] in m[3] for m in nodes if m[1] in ("bb_input",)):
                n[1] = rng.choice(["0", "1", "x"])
        if c:
            n = rng.choice(c); n[3] = sorted(set(n[3]) | {rng.choice(names)})
    elif kind == "second_driver":
        c = by(["buf", "not", "bb_input"])
        if c:
            n = rng.choice(c); n[3] = sorted(set(n[3]) | set(rng.sample(names, min(2, len(names)))))
    elif kind == "bbout_load":
        c = by(["bb_output"])
        if c:
            src = rng.choice(c)[0]
            nodes.append([fresh(names, "xb"), "buf", True, [src]])
    elif kind == "bbout_nonbuf":
        c = by(["bb_output"])
        if c:
            src = rng.choice(c)[0]
            for m in nodes:
                if src in m[3]:
                    m[1] = rng.choice(["not", "and", "or"])
    elif kind == "untype":
        rng.choice(nodes)[1] = None
    elif kind == "unsup":
        rng.choice(nodes)[1] = "foo"
    elif kind == "dotted":
        nodes.append([fresh(names, rng.choice(["zz.q", "ff0.extra", "a.b.c", ".x", "zz."])), rng.choice(["buf", "input", "bb_output", "bb_input"]), True, []])
    elif kind == "drop_pin":
        c = by(["bb_input", "bb_output"])
        if c:
            v = rng.choice(c)[0]
            d["nodes"] = [[n, t, o, [f for f in fi if f != v]] for n, t, o, fi in nodes if n != v]
    elif kind == "mistype_pin":
        c = by(["bb_input", "bb_output"])
        if c:
            n = rng.choice(c); n[1] = rng.choice(["buf", "bb_input", "bb_output", "input", None])
    elif kind == "undriven":
        c = by(lib.GATES + ["bb_input"])
        if c:
            rng.choice(c)[3] = []
    elif kind == "unloaded":
        n = rng.choice(nodes); n[2] = False
    elif kind == "single_in":
        c = by(lib.MULTI)
        if c:
            n = rng.choice(c); n[3] = n[3][:1]
    elif kind == "harmless_edge":
        c = by(lib.MULTI)
        if c:
            n = rng.choice(c); n[3] = sorted(set(n[3]) | {rng.choice(names)})
    elif kind == "harmless_out":
        rng.choice(nodes)[2] = True
    elif kind == "registry_only":
        # one entry per instance name: a Python dict cannot hold two (a second `registry_only` edit used to add "u9" twice, which the
        # dict resolved to the last and Coq's list_to_map to the first: a false alarm of the thorough tier, removed)
        inst = "u9" if all(b[0] != "u9" for b in d.get("bbs", [])) else fresh({b[0] for b in d["bbs"]} | set(names), "u9")
        d["bbs"] = d.get("bbs", []) + [[inst, "ff", rng.choice([[], ["d"]]), rng.choice([[], ["q"]])]]
    elif kind == "multi_dot_clean":
        # a node whose name has two dots and whose FIRST segment is a registered instance: documented rule = no error
        insts = [b[0] for b in d.get("bbs", [])]
        src = [n[0] for n in nodes if n[1] in ("input",) + tuple(lib.GATES)]
        if insts and src:
            nodes.append([fresh(names, rng.choice(insts) + "." + rng.choice(["aux.0", "d.0", "x.y"])), "buf", True, [rng.choice(src)]])
    elif kind == "dotted_instance":
        # a registered instance whose own name contains a dot: its pins' first segment is not a registered instance
        src = [n[0] for n in nodes if n[1] in ("input",) + tuple(lib.GATES)]
        if src:
            inst = fresh(names, "core.u0")
            nodes.append([inst + ".d", "bb_input", False, [rng.choice(src)]])
            d["bbs"] = d.get("bbs", []) + [[inst, "ff", ["d"], []]]
    elif kind == "free_bbout_loads":
        # a bb_output node that belongs to no registered instance (plain name): the load rules apply to every node of that type
        n = fresh(names, "xo")
        nodes.append([n, "bb_output", False, []])
        if rng.random() < 0.5:
            nodes.append([fresh(names + [n], "xl0"), "buf", True, [n]])
            nodes.append([fresh(names + [n], "xl1"), "buf", True, [n]])
        else:
            nodes.append([fresh(names + [n], "xl0"), rng.choice(["not", "and"]), True, [n]])
    elif kind == "swap_pin":
        # a pin that carries the OPPOSITE pin type while every per-node rule stays satisfied: only the registry check can object
        fo = {f for m in nodes for f in m[3]}
        ins = [n for n in nodes if n[1] == "bb_input" and "." in n[0] and n[0] not in fo]
        outs = [n for n in nodes if n[1] == "bb_output" and "." in n[0]]
        if ins and (not outs or rng.random() < 0.5):
            n = rng.choice(ins); n[1] = "bb_output"; n[3] = []          # declared input typed bb_output: no driver, no load
        elif outs:
            n = rng.choice(outs)
            for m in nodes:                                              # detach its load, then type it bb_input with one driver
                m[3] = [f for f in m[3] if f != n[0]]
            src = [m[0] for m in nodes if m[1] == "input"]
            n[1] = "bb_input"; n[3] = [rng.choice(src)] if src else []
    elif kind == "pin_extra_fanout":
        c = by(["bb_input"])
        if c:
            nodes.append([fresh(names, "yb"), "buf", True, [rng.choice(c)[0]]])
    return kind


def gen_near_clean(rng):
    d = lib.rand_dag(rng, rng.randint(1, 3), rng.randint(1, 5), max_fanin=3, p_const=0.4, consts=("0", "1", "x"))
    if rng.random() < 0.6:
        d = lib.add_flop(rng, d, unconnected=rng.random() < 0.2)
    edits = [inject(rng, d) for _ in range(rng.choice([0, 1, 1, 1, 2]))]
    flags = [rng.random() < 0.6, rng.random() < 0.25, rng.random() < 0.75, rng.random() < 0.25]
    return {"fn": "lint", "circuit": d, "flags": flags, "edits": edits}


def gen_raw(rng):
    k = rng.randint(1, 7)
    pool = ["a", "b", "c", "d", "e", "g", "h"]
    insts = ["f0", "u1"] if rng.random() < 0.85 else ["f0", "f0.u1"]       # an instance name may itself contain a dot
    names = []
    for i in range(k):
        r = rng.random()
        if r < 0.3:
            names.append(rng.choice(insts + ["zz"]) + "." + rng.choice(["d", "q", "clk", "d.0", "q.x", "u1.d"]))
        else:
            names.append(pool[i])
    names = list(dict.fromkeys(names))
    nodes = []
    for n in names:
        if "." in n and rng.random() < 0.7:
            t = "bb_input" if n.endswith((".d", ".clk")) else "bb_output"
            if rng.random() < 0.15:
                t = rng.choice(TYPES)
        else:
            t = rng.choice(TYPES) if rng.random() < 0.35 else rng.choice(TYPES[:12])
        nodes.append([n, t, rng.random() < 0.3, []])
    mode = rng.random()
    for nd in nodes:
        t = nd[1]
        if mode < 0.5:
            # mostly well-formed arities
            if t in ("input", "0", "1", "x", "bb_output", None, "foo"):
                ar = 1 if rng.random() < 0.12 else 0
            elif t in ("buf", "not", "bb_input"):
                ar = rng.choice([1, 1, 1, 0, 2])
            else:
                ar = rng.choice([2, 2, 3, 1, 0])
        else:
            ar = rng.randint(0, 3)
        cand = [m for m in names if m != nd[0] or rng.random() < 0.1]
        rng.shuffle(cand)
        nd[3] = sorted(cand[:ar])
    bbs = []
    for inst in insts:
        if rng.random() < 0.5:
            ins = rng.choice([["d"], ["d", "clk"], []])
            outs = rng.choice([["q"], [], ["q", "qn"]])
            bbs.append([inst, "ff", ins, outs])
    flags = [rng.random() < 0.7, rng.random() < 0.3, rng.random() < 0.7, rng.random() < 0.3]
    return {"fn": "lint", "circuit": {"name": "top", "nodes": nodes, "bbs": bbs}, "flags": flags}


PRODUCERS = ["limit_fanin", "limit_fanout", "ternary", "miter", "half_adder", "full_adder", "adder", "mux", "popcount",
             "strip_blackboxes", "copy", "relabel", "fill_nested", "subcircuit_nested", "fill_nested", "subcircuit_nested",
             "unroll", "insert_registers", "acyclic_unroll", "sensitization", "verilog_roundtrip", "bench_roundtrip",
             "remove_unloaded", "remove_unloaded", "sequential_unroll", "sequential_unroll", "bench_text", "verilog_text", "bench_text", "bench_text"]


def gen_produced(rng, k=None):
    # stratified: every producer appears in every block of len(PRODUCERS) cases (a uniform draw left some producers, and the
    # pass-through-pin variant of the composition producers, out of a quick run: seeded C20-s6 was then missed)
    fn = rng.choice(PRODUCERS) if k is None else PRODUCERS[k % len(PRODUCERS)]
    passthrough = rng.random() < 0.4 if k is None else (k // len(PRODUCERS) + k % len(PRODUCERS) // 2) % 2 == 1
    case = {"fn": "produced", "producer": fn}
    if fn in ("limit_fanin", "limit_fanout", "ternary", "miter", "copy", "relabel"):
        case["circuit"] = lib.rand_dag(rng, rng.randint(1, 4), rng.randint(1, 6), max_fanin=5,
                                       p_const=0.3 if fn != "ternary" else 0.2)
        case["k"] = rng.randint(2, 4)
        if fn in ("limit_fanin", "limit_fanout", "copy", "relabel") and rng.random() < 0.5:
            case["circuit"] = lib.add_flop(rng, case["circuit"], inst=rng.choice(["ff0", "r_0"]))
    elif fn in ("adder", "mux", "popcount"):
        case["w"] = rng.randint(1, 3) if fn != "mux" else rng.randint(1, 4)   # vm_compute on string-keyed maps: keep produced graphs below ~40 nodes
        case["ci"] = rng.random() < 0.5
        case["co"] = rng.random() < 0.5
    elif fn == "strip_blackboxes":
        d = lib.rand_dag(rng, rng.randint(2, 3), rng.randint(1, 5), max_fanin=3)
        case["circuit"] = d
        case["flop_on"] = rng.choice([n[0] for n in d["nodes"]])
    elif fn in ("fill_nested", "subcircuit_nested"):
        # parent with a blackbox instance `u`; child = a small circuit that itself contains a flop instance whose
        # instance name differs from its type name ("fully connected composition calls")
        case["parent"] = lib.rand_dag(rng, rng.randint(2, 3), rng.randint(1, 3), max_fanin=2)
        child = lib.rand_dag(rng, 2, rng.randint(1, 3), max_fanin=2, p_out=0.0, sinks_out=False, names=lambda i: f"k{i}")
        for n in child["nodes"]:
            n[2] = False
        child["nodes"][-1][2] = True
        if passthrough:
            child["nodes"][0][2] = True          # a pass-through pin: input that is also marked as output
        case["child"] = lib.add_flop(rng, child, inst=rng.choice(["r0", "reg_a", "ff"]), on=child["nodes"][-1][0], clk="k0", bbname="ff")
        case["inst"] = rng.choice(["u", "acc", "u_1"])
    elif fn in ("unroll", "insert_registers", "sensitization", "verilog_roundtrip", "bench_roundtrip"):
        case["circuit"] = lib.rand_dag(rng, rng.randint(2, 3), rng.randint(2, 6), max_fanin=3, p_const=0.2 if fn.endswith("roundtrip") else 0.0)
        case["k"] = rng.randint(1, 2)
        if fn == "insert_registers" and rng.random() < 0.6:
            case["circuit"] = lib.add_flop(rng, case["circuit"], inst="u_ff")
    elif fn in ("bench_text", "verilog_text"):
        # hand-written netlist text: operands drawn WITH replacement (NAND(a, a) is the usual NAND-only inverter), which a
        # write->read round trip never produces because a graph holds each operand once (seeded C20-s9)
        names = [f"i{k}" for k in range(rng.randint(1, 3))]
        gates = []
        for k in range(rng.randint(1, 5)):
            t = rng.choice(["and", "nand", "or", "nor", "xor", "xnor", "not", "buf"])
            ar = 1 if t in ("not", "buf") else rng.choice([1, 2, 2, 2, 3, 4])
            ops = [rng.choice(names) for _ in range(ar)]
            if ar >= 2 and rng.random() < 0.6:
                ops[rng.randrange(1, ar)] = ops[0]
            gates.append([f"g{k}", t, ops])
            names.append(f"g{k}")
        used = {o for g in gates for o in g[2]}
        case["text"] = {"inputs": [n for n in names if n.startswith("i")], "gates": gates,
                        "outputs": [g[0] for g in gates if g[0] not in used] or [gates[-1][0]]}
    elif fn == "sequential_unroll":
        # a flop circuit in which an ordinary net carries the name <inst>_<pin> of an ignored pin (a buffered / gated clock)
        d = lib.rand_dag(rng, rng.randint(2, 3), rng.randint(1, 4), max_fanin=3)
        inst = rng.choice(["ff", "r0"])
        d = lib.add_flop(rng, d, inst=inst, clk="clk")
        if rng.random() < 0.7:
            d["nodes"].append([f"{inst}_clk", rng.choice(["buf", "not"]), False, ["clk"]])
            d["nodes"].append(["clk_mon", "not", True, [f"{inst}_clk"]])
        case["circuit"] = d
        case["inst"] = inst
        case["ignore"] = rng.choice(["clk", ["clk"], None])
        case["k"] = rng.randint(1, 2)
    elif fn == "remove_unloaded":
        # flop whose q buffer feeds only a dead (unloaded, non-output) cone, next to live logic
        d = lib.rand_dag(rng, rng.randint(2, 3), rng.randint(1, 4), max_fanin=3)
        d = lib.add_flop(rng, d, inst="ff0", unconnected=rng.random() < 0.3)
        for n in d["nodes"]:
            if n[0] == "ff0_qbuf":
                n[2] = False
        d["nodes"] = [[n, t, o, [f for f in fi]] for n, t, o, fi in d["nodes"]]
        used = {f for n in d["nodes"] for f in n[3]}
        if "ff0_qbuf" not in used or rng.random() < 0.7:
            d["nodes"].append(["dbg0", "not", False, ["ff0_qbuf"]])
            if rng.random() < 0.5:
                d["nodes"].append(["dbg1", "buf", False, ["dbg0"]])
        case["circuit"] = d
        case["k"] = rng.randint(0, 1)
    elif fn == "acyclic_unroll":
        d = lib.rand_dag(rng, rng.randint(1, 3), rng.randint(2, 5), types=lib.MULTI, max_fanin=3, allow_single_multi=False)
        gates = [n for n in d["nodes"] if n[1] in lib.MULTI]
        if len(gates) >= 2:       # one feedback edge from a later gate to an earlier one
            a, b = sorted(rng.sample(range(len(gates)), 2))
            gates[a][3] = sorted(set(gates[a][3]) | {gates[b][0]})
        case["circuit"] = d
    return case


def generate(rng, tier):
    n = 240 if tier == "quick" else 3000
    out = [gen_raw(rng) for _ in range(n // 4)] + [gen_near_clean(rng) for _ in range(n)]
    out += [gen_produced(rng, k) for k in range(n // 2)]
    for case in out:                       # a registry is a dict: one entry per instance name
        d = case.get("circuit")
        if d and d.get("bbs"):
            seen = set()
            d["bbs"] = [b for b in d["bbs"] if not (b[0] in seen or seen.add(b[0]))]
    return out


def _lint(c, **kw):
    import circuitgraph as cg
    try:
        cg.lint(c, **kw)
        return "ok"
    except Exception as e:
        return type(e).__name__


def impl(case):
    import circuitgraph as cg
    if case["fn"] == "lint":
        c = lib.build_circuit(case["circuit"])
        ff, ul, ud, si = case["flags"]
        return {"lint": _lint(c, fail_fast=ff, unloaded=ul, undriven=ud, single_input_gates=si)}
    fn = case["producer"]
    c = None
    if "circuit" in case:
        c = lib.build_circuit(case["circuit"])
    arg_clean_before = c is not None and _lint(c) == "ok"
    try:
        if fn == "limit_fanin":
            r = cg.tx.limit_fanin(c, case["k"])
        elif fn == "limit_fanout":
            r = cg.tx.limit_fanout(c, case["k"])
        elif fn == "ternary":
            r, _ = cg.tx.ternary(c)
        elif fn == "miter":
            r = cg.tx.miter(c)
        elif fn == "copy":
            r = c.copy()
        elif fn == "relabel":
            # pin nodes keep their names: renaming <inst>.<pin> without renaming the instance is the caller's mistake, not the library's
            r = cg.tx.relabel(c, {n: f"r_{n}" for n in c.nodes() if "." not in n})
        elif fn == "half_adder":
            r = cg.logic.half_adder()
        elif fn == "full_adder":
            r = cg.logic.full_adder()
        elif fn == "adder":
            r = cg.logic.adder(case["w"], case["ci"], case["co"])
        elif fn == "mux":
            r = cg.logic.mux(case["w"])
        elif fn == "popcount":
            r = cg.logic.popcount(case["w"])
        elif fn == "strip_blackboxes":
            n = case["flop_on"]
            fo = c.fanout(n)
            c.disconnect(n, fo)
            q = c.add("qq", "buf", fanout=fo)
            c.add("clk", "input")
            c.add_blackbox(cg.BlackBox("ff", ["clk", "d"], ["q"]), "ff0", {"d": n, "q": q, "clk": "clk"})
            r = cg.tx.strip_blackboxes(c)
        elif fn in ("fill_nested", "subcircuit_nested"):
            par, ch, inst = lib.build_circuit(case["parent"]), lib.build_circuit(case["child"]), case["inst"]
            if _lint(par) != "ok" or _lint(ch) != "ok":
                return {"producer_exc": "precondition"}
            ins, outs = sorted(ch.inputs()), sorted(ch.outputs())
            # sources: gates of the parent first, then its inputs (a pass-through pin wired to a *gate* is what shows a swapped
            # input/output resolution: the gate silently gains an operand and the pin stays undriven; seeded C20-s6)
            srcs = sorted(n for n in par.nodes() if par.type(n) not in ("input", "0", "1", "x")) + sorted(par.inputs())
            conns = {i: srcs[k % len(srcs)] for k, i in enumerate(ins)}
            for k, o in enumerate(outs):
                if o not in conns:             # a pass-through pin is attached as an input only
                    conns[o] = par.add(f"ld{k}", "buf", output=True)
            if fn == "fill_nested":
                par.add_blackbox(cg.BlackBox("blk", ins, outs), inst, conns)
                par.fill_blackbox(inst, ch)
            else:
                par.add_subcircuit(ch, inst, conns)
            r = par
        elif fn == "sequential_unroll":
            if _lint(c) != "ok":
                return {"producer_exc": "precondition"}
            r, _ = cg.tx.sequential_unroll(c, case["k"], "d", "q", ignore_pins=case["ignore"])
        elif fn == "remove_unloaded":
            if _lint(c) != "ok":
                return {"producer_exc": "precondition"}
            c.remove_unloaded(inputs=bool(case["k"]) and not c.blackboxes)
            r = c
        elif fn == "unroll":
            outs = sorted(c.outputs() - c.inputs()); ins = sorted(c.inputs())
            if not outs or len(ins) < 2:
                return {"producer_exc": "precondition"}
            r, _ = cg.tx.unroll(c, case["k"] + 1, {outs[0]: ins[0]})
        elif fn == "insert_registers":
            r = cg.tx.insert_registers(c, case["k"])
        elif fn == "acyclic_unroll":
            if _lint(c) != "ok":
                return {"producer_exc": "precondition"}
            r = cg.tx.acyclic_unroll(c)
        elif fn == "sensitization":
            n = sorted(c.nodes() - c.outputs())[0] if c.nodes() - c.outputs() else sorted(c.nodes())[0]
            r = cg.tx.sensitization_transform(c, n)
        elif fn == "verilog_roundtrip":
            r = cg.io.verilog_to_circuit(cg.io.circuit_to_verilog(c, behavioral=case["k"] == 2), c.name)
        elif fn == "bench_roundtrip":
            r = cg.io.bench_to_circuit(cg.io.circuit_to_bench(c), c.name)
        elif fn == "bench_text":
            t = case["text"]
            txt = "".join(f"INPUT({i})\n" for i in t["inputs"]) + "".join(f"OUTPUT({o})\n" for o in t["outputs"])
            txt += "".join(f"{g} = {('BUFF' if ty == 'buf' else ty.upper())}({', '.join(ops)})\n" for g, ty, ops in t["gates"])
            r = cg.io.bench_to_circuit(txt, "top")
        elif fn == "verilog_text":
            t = case["text"]
            txt = f"module top({', '.join(t['inputs'] + t['outputs'])});\n"
            txt += "".join(f"  input {i};\n" for i in t["inputs"]) + "".join(f"  output {o};\n" for o in t["outputs"])
            txt += "".join(f"  wire {g};\n" for g, _, _ in t["gates"] if g not in t["outputs"])
            txt += "".join(f"  {ty} u_{g}({g}, {', '.join(ops)});\n" for g, ty, ops in t["gates"]) + "endmodule\n"
            r = cg.io.verilog_to_circuit(txt, "top")
    except Exception as e:
        return {"producer_exc": type(e).__name__}
    obs = {"out": lib.dump_circuit(r), "lint": _lint(r)}
    if arg_clean_before and c is not r:
        # a transform must leave its lint-clean argument lint-clean (shared registries show up here)
        obs["arg"] = lib.dump_circuit(c)
        obs["arg_lint"] = _lint(c)
    return obs


def cres(s):
    if s == "ok":
        return "(Ok ())"
    if s in ("ValueError", "KeyError", "IndexError", "StopIteration", "NotImplementedError"):
        return f"(Raise {s})"
    return "(Raise OtherError)"


def to_coq(case, obs):
    if case["fn"] == "lint":
        ff, ul, ud, si = case["flags"]
        return f"CLint {ccirc(case['circuit'])} {cb(ff)} {cb(ul)} {cb(ud)} {cb(si)} {cres(obs['lint'])}"
    if "out" not in obs:
        return None
    t = f"CProduced {cs(case['producer'])} {ccirc(obs['out'])} {cres(obs['lint'])}"
    if "arg" in obs and len(obs["arg"]["nodes"]) <= 40:
        t = f"CBoth ({t}) (CProduced {cs(case['producer'] + ':argument')} {ccirc(obs['arg'])} {cres(obs['arg_lint'])})"
    return t


def nontrivial(case, obs):
    if case["fn"] == "lint":
        d = case["circuit"]
        return len(d["nodes"]) >= 2 and (any(n[3] for n in d["nodes"]) or bool(d["bbs"]))
    return "out" in obs and len(obs["out"]["nodes"]) >= 3


def classify(case, obs):
    if case["fn"] == "lint":
        return ["lint:" + obs.get("lint", "?")] + ["edit:" + e for e in case.get("edits", [])]
    return ["produced:" + case["producer"] + (":exc" if "out" not in obs else "")]


def finding_signature(case, obs):
    return None


def mutate_case(rng, case):
    return gen_raw(rng)

CLAIMED = True
LEVEL_TEXT = ("Theorems (all graphs, registries, flag sets): the lint model raises ValueError iff the documented rule list is violated, "
              "and has no other outcome; the type tables the model runs on are regenerated from utils.py/circuit.py on every run and "
              "proved equal to the documented ones. The model is tied to utils.lint by correspondence on generated raw graphs; the "
              "'library outputs are lint-clean' clause is decided by the Coq specification on what each library function returned.")
LEVEL_NOTE = ("Trusted: Coq kernel + vm_compute, std++, translator shapes for utils.lint (rule guards compared textually, fail closed), "
              "harness canonicalisation. The second clause (outputs of library functions) is proof-level only where the producing "
              "transform has its own theorem (C05, C10, C13 ...); here it is validated on generated inputs.")
TECHNIQUE = "Coq proof (lint model <-> documented rules) + regenerated tables + vm_compute correspondence"
