"""Helpers shared by the C01 and C08 drivers: circuit generators for the SAT encoding, naming of CNF variables, Coq printers."""
import json

import lib
from lib import cs, cl, cb, csl, ccirc

PARITY = ("xor", "xnor")
MULTI = lib.MULTI


# ---------------------------------------------------------------- generators (dumps: {"name", "nodes": [[n, type, out, fanin]], "bbs"})
def gate_probe(rng, t, k, extra=True):
    """k inputs feeding one gate of type t (fan-in k), optionally observed through a second gate."""
    names = lib.NAME_POOLS[rng.choice(list(lib.NAME_POOLS))]
    nodes = [[names(i), "input", False, []] for i in range(k)]
    g = names(k)
    nodes.append([g, t, True, sorted(n[0] for n in nodes)])
    if extra and rng.random() < 0.5:
        t2 = rng.choice(lib.GATES)
        fi = [g] if t2 in lib.SINGLE else sorted({g, rng.choice(nodes)[0]})
        nodes.append([names(k + 1), t2, True, fi])
    return {"name": "top", "nodes": nodes, "bbs": []}


def rand_circuit(rng, max_nodes=10, max_fanin=5, p_const=0.3, parity_bias=0.0):
    n_in = rng.randint(1, 4)
    n_gate = rng.randint(1, max(1, max_nodes - n_in - 1))
    types = list(lib.GATES) + (["xor", "xnor"] * 3 if rng.random() < parity_bias else [])
    return lib.rand_dag(rng, n_in, n_gate, types=types, max_fanin=max_fanin, p_const=p_const)


def make_cyclic(rng, d):
    """Redirect one operand of a multi-input gate to a later gate (the result stays lint-clean)."""
    d = json.loads(json.dumps(d))
    nodes = d["nodes"]
    idx = [i for i, n in enumerate(nodes) if n[1] in lib.GATES]
    if len(idx) < 2:
        if idx:                                   # a self-loop through one gate
            n = nodes[idx[0]]
            n[3] = sorted(set(n[3][1:]) | {n[0]}) if n[1] not in lib.SINGLE else [n[0]]
        return d
    for _ in range(rng.randint(1, 2)):
        i = rng.choice(idx[:-1])
        j = rng.choice([k for k in idx if k >= i])   # k == i: self loop
        n = nodes[i]
        if n[1] in lib.SINGLE:
            n[3] = [nodes[j][0]]
        else:
            fi = list(n[3])
            if fi:
                fi[rng.randrange(len(fi))] = nodes[j][0]
            n[3] = sorted(set(fi))
    return d


STRESS = ["xor_{a}_{b}", "xor_inv_{g}", "{a}_{b}", "xor_{a}", "xor_xor_{a}_{b}_{g}", "xor", "xor_inv", "{g}_", "_{a}", "('xor', '{a}', '{b}')"]


def stress_names(rng, d):
    """Rename some nodes to names that look like the encoder's auxiliary variables of *other* nodes."""
    d = json.loads(json.dumps(d))
    names = [n[0] for n in d["nodes"]]
    ren = {}
    for _ in range(rng.randint(1, 3)):
        victim = rng.choice(names)
        a, b, g = rng.choice(names), rng.choice(names), rng.choice(names)
        new = rng.choice(STRESS).format(a=a, b=b, g=g)
        if new in names or new in ren.values() or victim in ren or "." in new:
            continue
        ren[victim] = new
    # operands named like an aux of the real chain: parity gate g over (a, b, c) gets a sibling named xor_b_c
    par = [n for n in d["nodes"] if n[1] in PARITY and len(n[3]) >= 3]
    if par and rng.random() < 0.7:
        g = rng.choice(par)
        x, y = rng.sample(g[3], 2)
        new = f"xor_{ren.get(x, x)}_{ren.get(y, y)}"
        cand = [n for n in names if n not in ren and n != g[0]]
        if cand and new not in names and new not in ren.values():
            ren[rng.choice(cand)] = new
    f = lambda n: ren.get(n, n)
    d["nodes"] = [[f(n), t, o, sorted(f(x) for x in fi)] for n, t, o, fi in d["nodes"]]
    return d


def gen_circuit(rng, kind=None, big=False):
    """-> (dump, tags)"""
    kind = kind or rng.choice(["dag", "dag", "dag", "parity", "bb", "bb_unconn", "cyclic", "cyclic", "stress", "stress", "const"])
    if kind == "pfamily":
        return parity_family(rng)
    mx = 14 if big else 9
    if kind == "dag":
        d = rand_circuit(rng, mx)
    elif kind == "parity":
        d = rand_circuit(rng, mx, parity_bias=1.0, p_const=0.1)
    elif kind == "const":
        d = rand_circuit(rng, mx, p_const=0.9)
    elif kind in ("bb", "bb_unconn"):
        d = lib.add_flop(rng, rand_circuit(rng, max(4, mx - 5), max_fanin=3), unconnected=False)
        if kind == "bb_unconn":      # an unloaded blackbox output / a second instance whose output is not used
            d["nodes"].append(["u1.q", "bb_output", False, []])
            d["nodes"].append(["u1.d", "bb_input", False, [rng.choice([n[0] for n in d["nodes"] if "." not in n[0]])]])
            d["bbs"].append(["u1", "ff", ["d"], ["q"]])
    elif kind == "cyclic":
        d = make_cyclic(rng, rand_circuit(rng, 8, max_fanin=3, p_const=0.2))
    elif kind == "stress":
        d = stress_names(rng, rand_circuit(rng, mx, parity_bias=1.0, p_const=0.1))
    else:
        raise ValueError(kind)
    return d, [kind]


def gen_outside(rng):
    """Circuits outside the property's domain (the model must still agree on the outcome): x constants, parity gate without
    operands, unconnected blackbox input pin, undriven buffer."""
    d = rand_circuit(rng, 7, max_fanin=3)
    k = rng.choice(["x", "x", "empty_parity", "bbin_unconn", "undriven"])
    names = [n[0] for n in d["nodes"]]
    if k == "x":
        d["nodes"].insert(rng.randrange(len(names) + 1), ["kx", "x", rng.random() < 0.5, []])
        g = rng.choice([n for n in d["nodes"] if n[1] in MULTI] or [None])
        if g:
            g[3] = sorted(set(g[3]) | {"kx"})
    elif k == "empty_parity":
        d["nodes"].append(["pz", rng.choice(PARITY), True, []])
    elif k == "bbin_unconn":
        d = lib.add_flop(rng, d, unconnected=True)
        # make sure the pin without clause does not get the highest variable number
    else:
        d["nodes"].insert(0, ["ub", rng.choice(["buf", "not"]), True, []])
    return d, ["outside:" + k]


# ---------------------------------------------------------------- adaptive alias probing
def alias_followups(d, variables, limit=3):
    """Circuits in which a legal node carries the name of a *string* key of the IDPool that is not a node of d.

    With tuple keys for the auxiliary variables (the current code) there is no such key and nothing is generated.  With any
    string-keyed scheme the collision is constructed instead of guessed: a plain name becomes an extra input; `a.b` becomes pin `b`
    of a blackbox instance `a` (instance names live in their own registry, so `a` may also be a gate), alternately as an unconnected
    bb_output and as a connected bb_input.  Every follow-up is lint-clean when d is."""
    names = {n[0] for n in d["nodes"]}
    keys = [k for k in getattr(variables, "obj2id", {}) if isinstance(k, str) and k and k not in names]
    out = []
    for j, k in enumerate(keys[:limit]):
        e = json.loads(json.dumps(d))
        if "." not in k:
            e["nodes"].append([k, "input", False, []])
            out.append(e)
            continue
        inst, pin = k.split(".", 1)
        if not inst or not pin:
            continue
        drivers = [n[0] for n in d["nodes"] if n[1] not in ("bb_input",)]
        as_output = (j % 2 == 0) or not drivers
        if as_output:
            e["nodes"].append([k, "bb_output", False, []])
        else:
            e["nodes"].append([k, "bb_input", False, [drivers[0]]])
        for b in e["bbs"]:
            if b[0] == inst:
                (b[3] if as_output else b[2]).append(pin)
                break
        else:
            e["bbs"].append([inst, "aliasbb", [] if as_output else [pin], [pin] if as_output else []])
        out.append(e)
    return out


# ---------------------------------------------------------------- parity families and order-reversal probing
def parity_family(rng):
    """2-3 parity gates (xor and xnor mixed) with 3-5 operands drawn from a shared pool of 4-6 inputs, so that operand pairs recur."""
    names = lib.NAME_POOLS[rng.choice(list(lib.NAME_POOLS))]
    k = rng.randint(4, 6)
    pool = [names(i) for i in range(k)]
    nodes = [[n, "input", False, []] for n in pool]
    for j in range(rng.randint(2, 3)):
        fi = sorted(rng.sample(pool, rng.randint(3, min(5, k))))
        nodes.append([f"p{j}", rng.choice(PARITY), True, fi])
    return {"name": "top", "nodes": nodes, "bbs": []}, ["pfamily"]


def tail_pairs(order):
    """ordered pairs of plain operands met by the chain loop of sat.cnf on list(c.fanin(n)) = order (non-final steps only)"""
    nets, pairs = list(order), []
    while len(nets) > 2:
        if isinstance(nets[-2], str) and isinstance(nets[-1], str):
            pairs.append((nets[-2], nets[-1]))
        nets = [None] + nets[:-2]
    return pairs


def reversal_followups(d, limit=2):
    """Two-gate circuits over the inputs of d whose parity gates chain one shared pair of operands in opposite relative order.

    Runs inside the worker: the order is read off the library's own fanin() under the current hash seed (it depends on the seed and on
    the size of the fan-in set), so the situation is constructed, not waited for.  Deterministic for a fixed hash seed."""
    from itertools import combinations
    pool = [n[0] for n in d["nodes"] if n[1] == "input"][:6]
    if len(pool) < 4:
        return []
    subsets = [sorted(fi) for size in (3, 4, 5) for fi in combinations(pool, size)]
    probe = {"name": "probe", "nodes": [[n, "input", False, []] for n in pool] + [[f"pr{i}", "xor", True, fi] for i, fi in enumerate(subsets)], "bbs": []}
    c = lib.build_circuit(probe)
    seen, found = {}, []
    for i, fi in enumerate(subsets):
        for a, b in tail_pairs(list(c.fanin(f"pr{i}"))):
            if (b, a) in seen and seen[(b, a)] != fi:
                found.append((seen[(b, a)], fi, (a, b)))
            seen.setdefault((a, b), fi)
    out = []
    types = [("xor", "xnor"), ("xnor", "xor"), ("xor", "xor"), ("xnor", "xnor")]
    for j, (f0, f1, (a, b)) in enumerate(found):
        t0, t1 = types[j % 4]
        e = {"name": "top", "nodes": [[n, "input", False, []] for n in pool] + [["p0", t0, True, f0], ["p1", t1, True, f1]], "bbs": []}
        ce = lib.build_circuit(e)                      # confirm the reversal on the circuit that is actually encoded
        if (b, a) in tail_pairs(list(ce.fanin("p0"))) and (a, b) in tail_pairs(list(ce.fanin("p1"))):
            out.append(e)
            if len(out) >= limit:
                break
    return out


def cmany(terms):
    return terms[0] if len(terms) == 1 else "CMany " + cl("(%s)" % t for t in terms)


# ---------------------------------------------------------------- orders and variable naming
def record_orders(c, nodes=None):
    """list(c.fanin(n)) for every node whose clause set depends on the iteration order."""
    out = []
    for n in (nodes if nodes is not None else c.graph.nodes):
        t = c.graph.nodes[n].get("type")
        fi = list(c.fanin(n))
        if (t in PARITY and len(fi) >= 3) or (t in ("buf", "not", "bb_input") and len(fi) >= 2):
            out.append([n, fi])
    return out


def name_var(obj):
    """IDPool object -> JSON: node name, ("xor", a, b), ("xor_inv", n)"""
    if isinstance(obj, str):
        return ["n", obj]
    if isinstance(obj, tuple) and len(obj) == 3 and obj[0] == "xor":
        return ["x", name_var(obj[1]), name_var(obj[2])]
    if isinstance(obj, tuple) and len(obj) == 2 and obj[0] == "xor_inv" and isinstance(obj[1], str):
        return ["i", obj[1]]
    return ["n", repr(obj)]


def named_clauses(clauses, variables):
    return [[[l > 0, name_var(variables.obj(abs(l)))] for l in cl_] for cl_ in clauses]


def cvar(v):
    if v[0] == "n":
        return "Nd " + cs(v[1])
    if v[0] == "i":
        return "Vi " + cs(v[1])
    return "Xr (%s) (%s)" % (cvar(v[1]), cvar(v[2]))


def cclauses(F):
    return cl(cl("(%s,%s)" % (cb(s), cvar(v)) for s, v in c_) for c_ in F)


def cords(o):
    return cl("(%s,%s)" % (cs(n), csl(fi)) for n, fi in o)


def cassign(a):
    return cl("(%s,%s)" % (cs(n), cb(v)) for n, v in a)


EXN = ("ValueError", "KeyError", "IndexError", "StopIteration", "NotImplementedError")


def cexn(s):
    return "(Raise %s)" % (s if s in EXN else "OtherError")


def vars_of(F):
    return {json.dumps(v) for c_ in F for _, v in c_}


def describe(d):
    """classification tags of a dump"""
    tags = []
    for n, t, o, fi in d["nodes"]:
        if t in lib.GATES:
            tags.append(f"{t}/{min(len(fi), 6)}")
        elif t in ("0", "1", "x"):
            tags.append("const:" + t)
        elif t in ("bb_input", "bb_output"):
            tags.append(t + ("" if (fi or t == "bb_output") else ":unconnected"))
    return tags


def eval_dump(d, assign):
    """Evaluate an acyclic dump under an assignment of inputs/bb outputs (dict); returns dict or None if cyclic."""
    val = dict(assign)
    nodes = {n[0]: n for n in d["nodes"]}
    pending = [n for n in nodes if n not in val]
    for _ in range(len(nodes) + 1):
        rest = []
        for n in pending:
            _, t, _, fi = nodes[n]
            if t == "0":
                val[n] = False
            elif t == "1":
                val[n] = True
            elif t in ("input", "bb_output", "x") or (t in ("buf", "not", "bb_input") and not fi):
                val[n] = bool(assign.get(n, False))
            elif all(f in val for f in fi):
                vs = [val[f] for f in fi]
                if t in ("and", "nand"):
                    r = all(vs)
                elif t in ("or", "nor"):
                    r = any(vs)
                else:
                    r = sum(vs) % 2 == 1
                val[n] = (not r) if t in ("nand", "nor", "xnor", "not") else r
            else:
                rest.append(n)
        pending = rest
        if not pending:
            return val
    return None
