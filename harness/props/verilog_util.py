"""Shared by C02/C03: stratified expression trees (mirroring Verilog/ExprParse.v), module ASTs (Verilog/Ast.v), a random
generator, a renderer to text with whitespace/comment injection that respects maximal munch, a tokenizer + parser of
the writer's output into the same AST, and Coq printers.

JSON shapes
  prim   ["PId", s] | ["PConst", "0"|"1"|"x", "b"|"h"] | ["PParen", orE]
  unary  ["UPrim", prim] | ["UNot", prim, "~"|"!"]
  andE   ["AUn", unary] | ["AAnd", andE, unary]
  xorE   ["XAnd", andE] | ["XXor", xorE, andE] | ["XXnor", xorE, andE, "~^"|"^~"]
  orE    ["OXor", xorE] | ["OOr", orE, xorE]
  cond   ["COr", orE] | ["CTern", orE, orE, orE]
  item   ["input", [n..]] | ["output", [n..]] | ["wire", [n..]] | ["assign", [[lv, cond]..]]
         | ["inst", modname, [[iname, ["pos", [cond..]]] | [iname, ["named", [[pin, cond|None]..]]] ..]]
  module {"name": s, "ports": [..], "items": [..]}
Trailing strings ("~", "h", "^~") are rendering choices; the Coq AST does not contain them.
"""
import re

from lib import cs, cl, csl

PRIMS = ["buf", "and", "or", "xor", "not", "nand", "nor", "xnor"]
KEYWORDS = {"module", "endmodule", "input", "output", "wire", "assign"}


# ------------------------------------------------------------------ generic trees -> stratified trees
# generic: ("id", s) ("k", c) ("not", e) ("and", l, r) ("xor", l, r) ("xnor", l, r) ("or", l, r) ("tern", s, a, b)
def to_prim(rng, e, pparen=0.1):
    if e[0] == "id" and rng.random() >= pparen:
        return ["PId", e[1]]
    if e[0] == "k" and rng.random() >= pparen:
        return ["PConst", e[1], rng.choice("bbh")]
    return ["PParen", to_or(rng, e, pparen)]


def to_unary(rng, e, pparen=0.1):
    if e[0] == "not" and rng.random() >= pparen:
        return ["UNot", to_prim(rng, e[1], pparen), rng.choice("~~!")]
    return ["UPrim", to_prim(rng, e, pparen)]


def to_and(rng, e, pparen=0.1):
    if e[0] == "and" and rng.random() >= pparen:
        return ["AAnd", to_and(rng, e[1], pparen), to_unary(rng, e[2], pparen)]
    return ["AUn", to_unary(rng, e, pparen)]


def to_xor(rng, e, pparen=0.1):
    if e[0] == "xor" and rng.random() >= pparen:
        return ["XXor", to_xor(rng, e[1], pparen), to_and(rng, e[2], pparen)]
    if e[0] == "xnor" and rng.random() >= pparen:
        return ["XXnor", to_xor(rng, e[1], pparen), to_and(rng, e[2], pparen), rng.choice(["~^", "^~"])]
    return ["XAnd", to_and(rng, e, pparen)]


def to_or(rng, e, pparen=0.1):
    if e[0] == "or" and rng.random() >= pparen:
        return ["OOr", to_or(rng, e[1], pparen), to_xor(rng, e[2], pparen)]
    if e[0] == "tern":
        raise ValueError("ternary below the top level cannot be written in this grammar")
    return ["OXor", to_xor(rng, e, pparen)]


def to_cond(rng, e, pparen=0.1):
    if e[0] == "tern":
        return ["CTern", to_or(rng, e[1], pparen), to_or(rng, e[2], pparen), to_or(rng, e[3], pparen)]
    return ["COr", to_or(rng, e, pparen)]


def cid(s):
    return ["COr", ["OXor", ["XAnd", ["AUn", ["UPrim", ["PId", s]]]]]]


def as_id(c):
    try:
        if c[0] == "COr" and c[1][0] == "OXor" and c[1][1][0] == "XAnd" and c[1][1][1][0] == "AUn" and c[1][1][1][1][0] == "UPrim" \
                and c[1][1][1][1][1][0] == "PId":
            return c[1][1][1][1][1][1]
    except (IndexError, TypeError):
        pass
    return None


def gen_generic(rng, depth, leaves, pool=None, p_const=0.08, consts="01x"):
    """random generic tree without ternary; `pool` collects sub-trees for reuse (repeated sub-expressions)"""
    if pool and rng.random() < 0.12:
        return rng.choice(pool)
    if depth <= 0 or rng.random() < 0.22:
        if rng.random() < p_const:
            return ("k", rng.choice(consts))
        return ("id", rng.choice(leaves))
    op = rng.choice(["not", "and", "and", "or", "or", "xor", "xor", "xnor"])
    if op == "not":
        e = ("not", gen_generic(rng, depth - 1, leaves, pool, p_const, consts))
    else:
        l = gen_generic(rng, depth - 1, leaves, pool, p_const, consts)
        r = l if rng.random() < 0.06 else gen_generic(rng, depth - 1, leaves, pool, p_const, consts)
        e = (op, l, r)
    if pool is not None and len(pool) < 12:
        pool.append(e)
    return e


def gen_cond(rng, depth, leaves, pool=None, p_tern=0.15, p_const=0.08, consts="01x", pparen=0.1):
    if rng.random() < p_tern:
        e = ("tern",) + tuple(gen_generic(rng, max(0, depth - 1), leaves, pool, p_const, consts) for _ in range(3))
    else:
        e = gen_generic(rng, depth, leaves, pool, p_const, consts)
    return to_cond(rng, e, pparen)


def count_ops(t):
    """number of operator nodes of a stratified tree"""
    if not isinstance(t, list):
        return 0
    n = 1 if t[0] in ("UNot", "AAnd", "XXor", "XXnor", "OOr") else (4 if t[0] == "CTern" else 0)
    return n + sum(count_ops(x) for x in t[1:])


def tree_ids(t):
    if not isinstance(t, list):
        return []
    if t[0] == "PId":
        return [t[1]]
    out = []
    for x in t[1:]:
        out += tree_ids(x)
    return out


def tree_has_x(t):
    if not isinstance(t, list):
        return False
    if t[0] == "PConst":
        return t[1] == "x"
    return any(tree_has_x(x) for x in t[1:])


# ------------------------------------------------------------------ tokens
def toks_expr(t):
    k = t[0]
    if k == "PId":
        return [t[1]]
    if k == "PConst":
        return ["1'" + (t[2] if len(t) > 2 else "b") + t[1]]
    if k == "PParen":
        return ["("] + toks_expr(t[1]) + [")"]
    if k in ("UPrim", "AUn", "XAnd", "OXor", "COr"):
        return toks_expr(t[1])
    if k == "UNot":
        return [t[2] if len(t) > 2 else "~"] + toks_expr(t[1])
    if k == "AAnd":
        return toks_expr(t[1]) + ["&"] + toks_expr(t[2])
    if k == "XXor":
        return toks_expr(t[1]) + ["^"] + toks_expr(t[2])
    if k == "XXnor":
        return toks_expr(t[1]) + [t[3] if len(t) > 3 else "~^"] + toks_expr(t[2])
    if k == "OOr":
        return toks_expr(t[1]) + ["|"] + toks_expr(t[2])
    if k == "CTern":
        return toks_expr(t[1]) + ["?"] + toks_expr(t[2]) + [":"] + toks_expr(t[3])
    raise ValueError(k)


def sep_list(lists, sep=","):
    out = []
    for i, l in enumerate(lists):
        if i:
            out.append(sep)
        out += l
    return out


def toks_item(it):
    k = it[0]
    if k in ("input", "output", "wire"):
        return [k] + sep_list([[n] for n in it[1]]) + [";"]
    if k == "assign":
        return ["assign"] + sep_list([[lv, "="] + toks_expr(e) for lv, e in it[1]]) + [";"]
    if k == "inst":
        insts = []
        for iname, (kind, ps) in it[2]:
            if kind == "pos":
                body = sep_list([toks_expr(p) for p in ps])
            else:
                body = sep_list([[".", p, "("] + (toks_expr(e) if e is not None else []) + [")"] for p, e in ps])
            insts.append([iname, "("] + body + [")"])
        return [it[1]] + sep_list(insts) + [";"]
    raise ValueError(k)


def toks_module(m):
    out = ["module", m["name"], "("] + sep_list([[p] for p in m["ports"]]) + [")", ";"]
    for it in m["items"]:
        out += toks_item(it)
    return out + ["endmodule"]


WORDY = re.compile(r"[A-Za-z0-9_$'\\]")
COMMENT_WORDS = ["x", "endmodule", "endmodule", "module", "tie_0", "tie_1", "tie_x", "tie_0_0", "not_a", "and_a_b", "and_a_b_0", "xor_a_b", "wire", "TODO", "g_0",
                 "mux_o_a_b_c", "a&b", "1'b0", "(", ";", "*", "/", "or_a_b", "not_b", "\\esc[1]"]


COMMENT_SNIPPETS = ["assign o = a & b;", "wire w;\n  and g(o, a);", ");", "endmodule", "input x;\noutput y;", "old:\n  nand g9(o, a, b);\n",
                    "module m_old(a);\n input a;\nendmodule"]


def block_comment(rng, extra=None):
    """a block comment over several lines with statement-like text (never containing the comment terminator)"""
    parts = [rng.choice(COMMENT_SNIPPETS + list(extra or [])) for _ in range(rng.randint(1, 2))]
    body = rng.choice(["\n", "\n  ", " \n"]).join(parts).replace("*/", "* /")
    return "/*" + rng.choice([" ", "\n"]) + body + rng.choice(["\n", " \n "]) + "*/"


def filler(rng, must, stress, extra=None):
    """whitespace / comments between two tokens; `must`: at least one separator character is required"""
    r = rng.random()
    if stress <= 0 or r > stress:
        return " " if must else ""
    kind = rng.choice(["sp", "sp2", "nl", "tab", "block", "line", "nlnl", "mblock"])
    if kind == "sp":
        return " "
    if kind == "sp2":
        return "  "
    if kind == "nl":
        return "\n"
    if kind == "nlnl":
        return "\n\n  "
    if kind == "tab":
        return "\t"
    if kind == "mblock":
        return block_comment(rng, extra)
    words = " ".join(rng.choice(COMMENT_WORDS) for _ in range(rng.randint(0, 3)))
    if kind == "block":
        return "/* " + words.replace("*/", "") + " */"
    return " // " + words + "\n"


def glue(t, n):
    """would t immediately followed by n be read as different tokens?"""
    if WORDY.match(t[-1]) and WORDY.match(n[0]):
        return True
    return (t[-1] == "^" and n[0] == "~") or (t[-1] == "~" and n[0] == "^")


def render(rng, toks, stress=0.3, extra=None):
    """Join tokens.  A separator is forced between two word-like tokens, after an escaped identifier (white space, not a
    comment) and between `^` and `~` (maximal munch would read the xnor operator).  The text handed to the parser is cut
    out by `module\\s+<name>\\s*\\(.*?\\);(.*?)endmodule`: only white space before the port list, header closed by `);`."""
    out = []
    header_close = toks.index(")") if toks and toks[0] == "module" and ")" in toks else -1
    for i, t in enumerate(toks):
        out.append(t)
        if i + 1 == len(toks):
            break
        n = toks[i + 1]
        if header_close >= 0 and i < 2:
            out.append(rng.choice([" ", "  ", "\n", "\t"]) if (i == 0 or t.startswith("\\") or rng.random() < 0.5) else "")
            continue
        if i == header_close and n == ";":
            continue
        if t.startswith("\\"):
            out.append(rng.choice([" ", "\n", "\t"]) if stress > 0 else " ")
            out.append(filler(rng, False, stress, extra))
            continue
        out.append(filler(rng, glue(t, n), stress, extra))
    return "".join(out) + ("\n" if rng.random() < 0.8 else "")


# ------------------------------------------------------------------ tokenizer + parser (writer output, expression strings)
TOKEN_RE = re.compile(r"\s+|//[^\n]*\n|/\*.*?\*/|(\\\S+|[A-Za-z_][A-Za-z0-9_$]*|1'[bh][01x]|~\^|\^~|[~!&|^?:()=,;.])", re.S)


def tokenize(text):
    pos, out = 0, []
    while pos < len(text):
        m = TOKEN_RE.match(text, pos)
        if not m:
            raise ValueError(f"cannot tokenize at {pos}: {text[pos:pos + 20]!r}")
        if m.group(1) is not None:
            out.append(m.group(1))
        pos = m.end()
    return out


def is_ident(t):
    return bool(re.fullmatch(r"\\\S+|[A-Za-z_][A-Za-z0-9_$]*", t)) and t not in KEYWORDS


class P:
    """recursive descent over a token list, producing stratified trees (same shape as ExprParse.v's parser)"""

    def __init__(self, toks):
        self.t, self.i = toks, 0

    def peek(self):
        return self.t[self.i] if self.i < len(self.t) else None

    def eat(self, x=None):
        t = self.peek()
        if t is None or (x is not None and t != x):
            raise ValueError(f"expected {x!r}, found {t!r} at {self.i}")
        self.i += 1
        return t

    def ident(self):
        t = self.peek()
        if t is None or not is_ident(t):
            raise ValueError(f"identifier expected, found {t!r}")
        self.i += 1
        return t

    def prim(self):
        t = self.peek()
        if t == "(":
            self.eat()
            o = self.or_()
            self.eat(")")
            return ["PParen", o]
        if t is not None and re.fullmatch(r"1'[bh][01x]", t):
            self.eat()
            return ["PConst", t[3], t[2]]
        return ["PId", self.ident()]

    def unary(self):
        if self.peek() in ("~", "!"):
            s = self.eat()
            return ["UNot", self.prim(), s]
        return ["UPrim", self.prim()]

    def and_(self):
        a = ["AUn", self.unary()]
        while self.peek() == "&":
            self.eat()
            a = ["AAnd", a, self.unary()]
        return a

    def xor(self):
        x = ["XAnd", self.and_()]
        while self.peek() in ("^", "~^", "^~"):
            s = self.eat()
            x = ["XXor", x, self.and_()] if s == "^" else ["XXnor", x, self.and_(), s]
        return x

    def or_(self):
        o = ["OXor", self.xor()]
        while self.peek() == "|":
            self.eat()
            o = ["OOr", o, self.xor()]
        return o

    def cond(self):
        o = self.or_()
        if self.peek() == "?":
            self.eat()
            a = self.or_()
            self.eat(":")
            return ["CTern", o, a, self.or_()]
        return ["COr", o]

    def names(self):
        l = [self.ident()]
        while self.peek() == ",":
            self.eat()
            l.append(self.ident())
        return l

    def module(self):
        self.eat("module")
        name = self.ident()
        self.eat("(")
        ports = self.names()
        self.eat(")")
        self.eat(";")
        items = []
        while self.peek() != "endmodule":
            t = self.peek()
            if t in ("input", "output", "wire"):
                self.eat()
                items.append([t, self.names()])
            elif t == "assign":
                self.eat()
                asg = []
                while True:
                    lv = self.ident()
                    self.eat("=")
                    asg.append([lv, self.cond()])
                    if self.peek() != ",":
                        break
                    self.eat()
                items.append(["assign", asg])
            else:
                mn = self.ident()
                insts = []
                while True:
                    iname = self.ident()
                    self.eat("(")
                    if self.peek() == ".":
                        ps = []
                        while True:
                            self.eat(".")
                            p = self.ident()
                            self.eat("(")
                            e = None if self.peek() == ")" else self.cond()
                            self.eat(")")
                            ps.append([p, e])
                            if self.peek() != ",":
                                break
                            self.eat()
                        insts.append([iname, ["named", ps]])
                    else:
                        ps = [self.cond()]
                        while self.peek() == ",":
                            self.eat()
                            ps.append(self.cond())
                        insts.append([iname, ["pos", ps]])
                    self.eat(")")
                    if self.peek() != ",":
                        break
                    self.eat()
                items.append(["inst", mn, insts])
            self.eat(";")
        self.eat("endmodule")
        if self.peek() is not None:
            raise ValueError("text after endmodule")
        return {"name": name, "ports": ports, "items": items}


def parse_module_text(text):
    return P(tokenize(text)).module()


# ------------------------------------------------------------------ Coq printing
LEVEL = {"PId": 0, "PConst": 0, "PParen": 0, "UPrim": 1, "UNot": 1, "AUn": 2, "AAnd": 2, "XAnd": 3, "XXor": 3, "XXnor": 3,
         "OXor": 4, "OOr": 4, "COr": 5, "CTern": 5}
LIFT = {1: "UPrim", 2: "AUn", 3: "XAnd", 4: "OXor", 5: "COr"}
KON = {"0": "K0", "1": "K1", "x": "KX"}


def cexpr(t):
    """compact Coq term: chains of injections UPrim/AUn/XAnd/OXor/COr are printed as one lifting function (see Run_C02.v)"""
    k = t[0]
    if k in LIFT.values():
        # collapse the chain
        top = LEVEL[k]
        inner = t
        while inner[0] in LIFT.values():
            inner = inner[1]
        bot = LEVEL[inner[0]]
        if top - bot == 1:
            return f"({k} {cexpr(inner)})"
        return f"(L{bot}{top} {cexpr(inner)})"
    if k == "PId":
        return f"(PId {cs(t[1])})"
    if k == "PConst":
        return f"(PConst {KON[t[1]]})"
    if k == "PParen":
        return f"(PParen {cexpr(t[1])})"
    if k == "UNot":
        return f"(UNot {cexpr(t[1])})"
    if k in ("AAnd", "XXor", "XXnor", "OOr"):
        return f"({k} {cexpr(t[1])} {cexpr(t[2])})"
    if k == "CTern":
        return f"(CTern {cexpr(t[1])} {cexpr(t[2])} {cexpr(t[3])})"
    raise ValueError(k)


def citem(it):
    k = it[0]
    if k == "input":
        return f"IInput {csl(it[1])}"
    if k == "output":
        return f"IOutput {csl(it[1])}"
    if k == "wire":
        return f"IWire {csl(it[1])}"
    if k == "assign":
        return "IAssign " + cl(f"({cs(lv)},{cexpr(e)})" for lv, e in it[1])
    if k == "inst":
        insts = []
        for iname, (kind, ps) in it[2]:
            if kind == "pos":
                insts.append(f"({cs(iname)},Positional {cl(cexpr(p) for p in ps)})")
            else:
                insts.append(f"({cs(iname)},Named " + cl(f"({cs(p)},{'None' if e is None else 'Some ' + cexpr(e)})" for p, e in ps) + ")")
        return f"IInst {cs(it[1])} {cl(insts)}"
    raise ValueError(k)


def cmodule(m):
    return f"(Md {cs(m['name'])} {csl(m['ports'])} {cl(citem(i) for i in m['items'])})"


def cbbdefs(bbs):
    return cl(f"mk_bb {cs(n)} {csl(i)} {csl(o)}" for n, i, o in bbs)


TOK2COQ = {"~": "TNot", "!": "TNot", "&": "TAnd", "^": "TXor", "~^": "TXnor", "^~": "TXnor", "|": "TOr", "(": "TLp", ")": "TRp",
           "?": "TQ", ":": "TColon"}


def ctok(t):
    if t in TOK2COQ:
        return TOK2COQ[t]
    if re.fullmatch(r"1'[bh][01x]", t):
        return f"TConst {KON[t[3]]}"
    return f"TId {cs(t)}"


def cres_circ(obs):
    """obs: {"ok": dump} | {"exc": class name}"""
    from lib import ccirc
    if "ok" in obs:
        return f"(Ok {ccirc(obs['ok'])})"
    e = obs["exc"]
    if e in ("ValueError", "KeyError", "IndexError", "NotImplementedError", "StopIteration"):
        return f"(Raise {e})"
    return "(Raise OtherError)"
