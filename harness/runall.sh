#!/bin/sh
# Run every claimed check of MANIFEST.json (quick tier unless $1 = thorough), one after the other; summary at the end.
cd "$(dirname "$0")/.." || exit 2
tier="${1:-quick}"
mkdir -p build/runall
ids=$(/venv/bin/python -c "import json; print(' '.join(c['property_id'] for c in json.load(open('MANIFEST.json'))['checks']))")
fail=0
for id in $ids; do
  start=$(date +%s)
  ./check "$id" --tier "$tier" > "build/runall/$id.log" 2>&1
  rc=$?
  end=$(date +%s)
  echo "$id rc=$rc $((end-start))s  $(tail -1 build/runall/$id.log)"
  grep -h "^VIOLATION\|^KNOWN-FINDING" "build/runall/$id.log"
  [ $rc -eq 0 ] || fail=1
done
exit $fail
