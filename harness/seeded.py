#!/venv/bin/python
"""Seeded changes (independently written property-breaking edits of the library) and what the checks say about them.

usage:
  seeded.py import <Cxx> <out-dir-of-breaker> <k> [offset]   confirm change k (patch<k>.diff, demo<k>.py) in a scratch worktree and store it as seeded/<Cxx>-s<k>/
  seeded.py run [<name> ...] [--tier quick]           run the property's check against each stored change (scratch worktree, VERIF_REPO), record verdict in meta.json
Scratch worktrees live under /tmp and are removed after every step.  Nothing here is used by the registered checks.
"""
import json
import os
import shutil
import subprocess
import sys
import time
from pathlib import Path

ROOT = Path(__file__).resolve().parent.parent
SEEDED = ROOT / "seeded"
PY = "/venv/bin/python"
TESTS = [PY, "-m", "pytest", "-q", "-p", "no:cacheprovider", "--timeout=900", "--continue-on-collection-errors"]


def sh(cmd, cwd=None, env=None, timeout=3600):
    p = subprocess.run(cmd, cwd=cwd, env=env, capture_output=True, text=True, timeout=timeout)
    return p.returncode, p.stdout + p.stderr


class Worktree:
    def __init__(self, tag):
        self.path = Path(f"/tmp/wt-seed-{tag}-{os.getpid()}")

    def __enter__(self):
        sh(["git", "-C", "/repo", "worktree", "remove", "--force", str(self.path)])
        rc, out = sh(["git", "-C", "/repo", "worktree", "add", "--detach", str(self.path), "HEAD"])
        if rc != 0:
            raise RuntimeError(out)
        return self.path

    def __exit__(self, *a):
        sh(["git", "-C", "/repo", "worktree", "remove", "--force", str(self.path)])
        shutil.rmtree(self.path, ignore_errors=True)


def run_demo(tree, demo):
    env = dict(os.environ, PYTHONPATH=f"{tree}:{ROOT / 'harness' / 'shims'}", PYTHONDONTWRITEBYTECODE="1", PYTHONHASHSEED="0")
    rc, out = sh([PY, str(demo)], cwd=str(tree), env=env, timeout=900)
    return rc, out[-600:]


def test_summary(tree):
    rc, out = sh(TESTS, cwd=str(tree), timeout=1800)
    lines = [l for l in out.splitlines() if l.startswith("FAILED") or l.startswith("ERROR")]
    tail = out.strip().splitlines()[-1] if out.strip() else ""
    return tail, sorted(l.split(" - ")[0] for l in lines)


def do_import(pid, outdir, k, offset=0):
    outdir = Path(outdir)
    patch, demo = outdir / f"patch{k}.diff", outdir / f"demo{k}.py"
    name = f"{pid}-s{k + offset}"
    with Worktree(name) as wt:
        base_tail, base_fail = test_summary(wt)
        rc0, out0 = run_demo(wt, demo)
        rc, out = sh(["git", "apply", str(patch)], cwd=str(wt))
        if rc != 0:
            print(f"{name}: patch does not apply to current /repo HEAD: {out[-300:]}")
            return 1
        tail, fail = test_summary(wt)
        rc1, out1 = run_demo(wt, demo)
    ok = rc0 == 0 and rc1 != 0 and fail == base_fail and tail.split(" in ")[0] == base_tail.split(" in ")[0]
    print(f"{name}: demo unchanged rc={rc0}, with change rc={rc1}; tests unchanged '{base_tail}', with change '{tail}', same failing set: {fail == base_fail} -> {'CONFIRMED' if ok else 'NOT CONFIRMED'}")
    if not ok:
        print(out0, out1)
        return 1
    d = SEEDED / name
    d.mkdir(parents=True, exist_ok=True)
    shutil.copy(patch, d / "patch.diff")
    shutil.copy(demo, d / "demo.py")
    notes = outdir / "notes.md"
    if notes.exists():
        shutil.copy(notes, d / "breaker_notes.md")
    head = sh(["git", "-C", "/repo", "rev-parse", "--short", "HEAD"])[1].strip()
    meta = {"name": name, "property": pid, "author": "independent sub-agent given only the property text and a scratch worktree",
            "repo_head_when_confirmed": head,
            "confirmed": {"demo_rc_unchanged": rc0, "demo_rc_with_change": rc1, "tests_unchanged": base_tail, "tests_with_change": tail,
                          "same_failing_tests": True, "demo_output_with_change": out1[-300:]},
            "needs_to_manifest": "see breaker_notes.md", "check_results": []}
    (d / "meta.json").write_text(json.dumps(meta, indent=1))
    return 0


def do_run(names, tier):
    res = 0
    for d in sorted(SEEDED.iterdir()):
        if not (d / "meta.json").exists() or (names and d.name not in names):
            continue
        meta = json.loads((d / "meta.json").read_text())
        pid = meta["property"]
        t0 = time.time()
        with Worktree(d.name) as wt:
            rc, out = sh(["git", "apply", str(d / "patch.diff")], cwd=str(wt))
            if rc != 0:
                print(f"{d.name}: patch no longer applies: {out[-200:]}")
                continue
            env = dict(os.environ, VERIF_REPO=str(wt))
            rc, out = sh([str(ROOT / "check"), pid, "--tier", tier], cwd=str(ROOT), env=env, timeout=7200)
            viol = [l for l in out.splitlines() if l.startswith("VIOLATION")]
            replay_info = None
            for l in viol:
                rp = l.split("replay=")[1].split()[0]
                try:
                    r = json.loads(Path(rp).read_text())
                    replay_info = {"has_case": "case" in r, "broken_obligation": r.get("broken_obligation"), "verdict": r.get("verdict")}
                    if "case" in r:
                        break
                except Exception:
                    pass
        # clean the per-tree Coq copy of this worktree only (other runs may own other copies)
        import hashlib
        shutil.rmtree(ROOT / "build" / ("coq-" + hashlib.sha1(os.path.realpath(str(wt)).encode()).hexdigest()[:10]), ignore_errors=True)
        caught = rc == 1 and bool(viol)
        kind = "not caught"
        if caught:
            kind = "failing input found" if any("no-failing-input-found" not in l for l in viol) else "no-failing-input-found"
        head = sh(["git", "-C", "/repo", "rev-parse", "--short", "HEAD"])[1].strip()
        vhead = sh(["git", "-C", str(ROOT), "rev-parse", "--short", "HEAD"])[1].strip()
        entry = {"tier": tier, "exit": rc, "caught": caught, "kind": kind, "violation_lines": viol[:3], "replay": replay_info,
                 "summary": out.strip().splitlines()[-1][:300] if out.strip() else "", "wall_s": round(time.time() - t0, 1),
                 "repo_head": head, "verif_head": vhead}
        meta["check_results"] = [e for e in meta.get("check_results", []) if e.get("tier") != tier] + [entry]
        (d / "meta.json").write_text(json.dumps(meta, indent=1))
        print(f"{d.name}: {pid} {tier} exit={rc} -> {kind}  ({entry['wall_s']} s)")
        if not caught:
            res = 1
    return res


if __name__ == "__main__":
    a = sys.argv[1:]
    if a and a[0] == "import":
        sys.exit(do_import(a[1], a[2], int(a[3]), int(a[4]) if len(a) > 4 else 0))
    if a and a[0] == "run":
        tier = "quick"
        if "--tier" in a:
            tier = a[a.index("--tier") + 1]
            a = [x for i, x in enumerate(a) if x != "--tier" and (i == 0 or a[i - 1] != "--tier")]
        sys.exit(do_run(a[1:], tier))
    print(__doc__)
