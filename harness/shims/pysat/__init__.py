"""Minimal pure-Python stand-in for python-sat (absent from this sandbox).

Only what circuitgraph uses: pysat.formula.{CNF, IDPool}, pysat.solvers.{Cadical153, Cadical}.
Every answer it gives is re-checked by the Coq-side oracles (holds_*), so it is not trusted.
"""
