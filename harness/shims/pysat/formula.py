class IDPool:
    def __init__(self, start_from=1, occupied=None):
        self.top = start_from - 1
        self.obj2id = {}
        self.id2obj = {}

    def id(self, obj=None):
        if obj is None:
            self.top += 1
            return self.top
        if obj not in self.obj2id:
            self.top += 1
            self.obj2id[obj] = self.top
            self.id2obj[self.top] = obj
        return self.obj2id[obj]

    def obj(self, vid):
        return self.id2obj.get(vid)


class CNF:
    def __init__(self, from_clauses=None):
        self.clauses = []
        self.nv = 0
        if from_clauses:
            for c in from_clauses:
                self.append(c)

    def append(self, clause):
        clause = list(clause)
        for l in clause:
            if abs(l) > self.nv:
                self.nv = abs(l)
        self.clauses.append(clause)

    def extend(self, clauses):
        for c in clauses:
            self.append(c)

    def __iter__(self):
        return iter(self.clauses)

    def __len__(self):
        return len(self.clauses)
