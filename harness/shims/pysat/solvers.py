"""DPLL with unit propagation (iterative), deterministic.  Models are total over 1..nv."""
import os


def _solve(clauses, nv):
    # returns list of ints (model) or None
    assign = [0] * (nv + 1)  # 0 unassigned, 1 true, -1 false
    clauses = [list(dict.fromkeys(c)) for c in clauses]
    for c in clauses:
        if not c:
            return None
    occ = {}
    for ci, c in enumerate(clauses):
        for l in c:
            occ.setdefault(l, []).append(ci)
    trail = []

    def value(l):
        v = assign[abs(l)]
        return v if l > 0 else -v

    def enqueue(l):
        assign[abs(l)] = 1 if l > 0 else -1
        trail.append(l)

    def propagate(start):
        i = start
        while i < len(trail):
            l = trail[i]
            i += 1
            for ci in occ.get(-l, ()):
                c = clauses[ci]
                unassigned = None
                sat = False
                n_un = 0
                for x in c:
                    v = value(x)
                    if v > 0:
                        sat = True
                        break
                    if v == 0:
                        n_un += 1
                        unassigned = x
                if sat:
                    continue
                if n_un == 0:
                    return False
                if n_un == 1:
                    enqueue(unassigned)
        return True

    # initial units
    for c in clauses:
        if len(c) == 1:
            v = value(c[0])
            if v < 0:
                return None
            if v == 0:
                enqueue(c[0])
    if not propagate(0):
        return None
    # order: prefer VERIF_SAT_PHASE to diversify models (0 -> false first, 1 -> true first)
    phase = -1 if os.environ.get("VERIF_SAT_PHASE", "0") == "0" else 1
    decisions = []  # (trail_len_before, literal, flipped)
    while True:
        var = 0
        for v in range(1, nv + 1):
            if assign[v] == 0:
                var = v
                break
        if var == 0:
            return [v if assign[v] > 0 else -v for v in range(1, nv + 1)]
        lit = var * phase
        decisions.append((len(trail), lit, False))
        enqueue(lit)
        ok = propagate(len(trail) - 1)
        while not ok:
            # backtrack
            while decisions and decisions[-1][2]:
                tl, _, _ = decisions.pop()
                while len(trail) > tl:
                    assign[abs(trail.pop())] = 0
            if not decisions:
                return None
            tl, l, _ = decisions.pop()
            while len(trail) > tl:
                assign[abs(trail.pop())] = 0
            decisions.append((tl, -l, True))
            enqueue(-l)
            ok = propagate(len(trail) - 1)


class _Solver:
    def __init__(self, bootstrap_with=None, **kwargs):
        self.clauses = []
        self.nv = 0
        self._model = None
        if bootstrap_with is not None:
            for c in bootstrap_with:
                self.add_clause(c)

    def add_clause(self, clause, no_return=True):
        clause = list(clause)
        for l in clause:
            if abs(l) > self.nv:
                self.nv = abs(l)
        self.clauses.append(clause)

    def append_formula(self, formula, no_return=True):
        for c in formula:
            self.add_clause(c)

    def solve(self, assumptions=()):
        cls = self.clauses + [[a] for a in assumptions]
        nv = self.nv
        for a in assumptions:
            nv = max(nv, abs(a))
        self._model = _solve(cls, nv)
        return self._model is not None

    def get_model(self):
        return self._model

    def nof_vars(self):
        return self.nv

    def delete(self):
        pass

    def __enter__(self):
        return self

    def __exit__(self, *a):
        pass


class Cadical153(_Solver):
    pass


class Cadical(_Solver):
    pass


class Glucose3(_Solver):
    pass


class Solver(_Solver):
    def __init__(self, name=None, bootstrap_with=None, **kwargs):
        super().__init__(bootstrap_with=bootstrap_with)
