"""Runs a property's `impl` on a list of cases against the implementation under $VERIF_REPO.

Invoked by framework.py as a subprocess of /venv/bin/python with PYTHONHASHSEED fixed and
PYTHONPATH=$VERIF_REPO:harness/shims:harness, so that `import circuitgraph` is the tree under test.
"""
import importlib
import json
import os
import sys
import traceback


def main():
    prop = sys.argv[1]
    mod = importlib.import_module("props." + prop.lower())
    import circuitgraph

    want = os.path.realpath(os.environ.get("VERIF_REPO", "/repo"))
    got = os.path.realpath(os.path.dirname(os.path.dirname(circuitgraph.__file__)))
    if got != want:
        print(json.dumps({"fatal": f"circuitgraph imported from {got}, expected {want}"}))
        return
    cases = json.load(sys.stdin)
    out = []
    for c in cases:
        try:
            obs = mod.impl(c)
        except BaseException as e:  # harness-level failure, never an expected library exception
            obs = {"harness_error": repr(e), "tb": traceback.format_exc()[-1500:]}
        out.append(obs)
    json.dump(out, sys.stdout)


if __name__ == "__main__":
    main()
