#!/bin/sh
# MANIFEST.setup_cmd: regenerate Gen/*.v from /repo and build the whole Coq development (full .vo, no -vos).
# A target that does not build is reported by the check of the property that needs it, so the build keeps going (-k).
cd "$(dirname "$0")"
mkdir -p build evidence replays
/venv/bin/python gen/translate.py "${VERIF_REPO:-/repo}" coq/theories/Gen >/dev/null || true
./harness/mkproject.sh
cd coq
timeout 3300 make -k -j16 > ../build/setup.log 2>&1
rc=$?
tail -3 ../build/setup.log
[ $rc -eq 0 ] || echo "setup: some Coq targets did not build (rc=$rc); see build/setup.log"
exit 0
