#!/bin/sh
# MANIFEST.setup_cmd: regenerate Gen/*.v from /repo and build the whole Coq development (full .vo).
set -e
cd "$(dirname "$0")"
mkdir -p build evidence replays
/venv/bin/python gen/translate.py "${VERIF_REPO:-/repo}" coq/theories/Gen >/dev/null || true
cd coq
coq_makefile -f _CoqProject -o Makefile >/dev/null
timeout 3000 make -j16
